"""C01 -- whole-font write/read round trip is lossless and reaches a byte fixed point.

1. TLC, exhaustive: FontCycle.tla (abstract writer WriteSpec, abstract reader ReadSpec, generations
   g0 -> b1 -> g1 -> b2 -> g2 -> b3).  Source "built": for ALL abstract fonts of the scalar/flag domain the
   normal form NF = ReadSpec o WriteSpec is idempotent, the representable domain Dom is closed under NF, on Dom
   the cycle changes nothing but precision, g2 = g1 and b3 = b2.  Source "tables": for ALL abstract table sets
   (files the writer never produces) one more cycle converges; whether the FIRST cycle is already a fixed point
   is evaluated too -- a counterexample there is a prediction about the design, confirmed or refuted against
   the real code in step 3, never a verdict by itself.
2. R: TLC (-simulate) draws a cover of font configurations (FontCycleGen.tla: outline kind, CID, cmap format,
   composites, GSUB/GPOS/GDEF kinds, script-list tag forms, glyph counts, flags in and outside Dom, version
   values around the 3-decimal rounding, string repertoires, extremes) and of abstract table sets; the harness
   instantiates each through the public API, runs the five-step cycle with repeated writes in the same and in
   fresh processes and records gen/file events.  Further byte strings accepted by sfnt.Read: the repository's
   fuzz corpora (whole files, and table corpora spliced into a written file), the Go fonts, seeded mutants.
3. V: every recorded execution is validated by TLC against FontCycleTrace.tla, which states exactly the
   property (field-by-field precision map for constructed fonts in Dom; g2 = g1, b3 = b2, rewrites equal for
   everything).  A case that TLC marks bad is re-recorded alone and re-validated before it is reported.
"""
import base64
import concurrent.futures
import json
import os
import re

import vlib

LEVEL = "model_checking"
MANIFEST = {
    "text": "TLC exhaustively checks the abstract writer/reader model FontCycle.tla (normal form idempotent, "
            "representable domain closed, only precision changes on it, g2 = g1 and b3 = b2 for every abstract font; "
            "convergence for every abstract table set). TLC-drawn font configurations and table sets are instantiated "
            "through the public API, cycled Write/Read/Write/Read/Write with repeated writes in the same and in fresh "
            "processes, together with fuzz-corpus files, Go fonts and accepted mutants; TLC validates every recorded "
            "generation and file digest against FontCycleTrace.tla, which states exactly the property.",
    "note": "Trusted: TLC, the projection internal/fproj (canonical digests of bulk data; sha256 of files), the font "
            "builders. Glyph contents, cmap and layout tables are compared as digests of canonical serialisations; "
            "fonts without any time stamp are excluded for constructed fonts (today's date in the name table). "
            "FontMatrix is always 1/unitsPerEm (other matrices: C13).",
    "technique": "TLA+ model checking (TLC) of FontCycle.tla + replay of TLC-generated configurations into the real "
                 "Write/Read cycle + trace validation of the recorded cycles against FontCycleTrace.tla",
}

_BAD = re.compile(r'<<\s*"BADCASE\|(-?\d+)\|(\d+)\|(\w+)\|([^"]*)"\s*>>')


# --------------------------------------------------------------------------- case construction

def _absent(x):
    return isinstance(x, dict) and x.get("absent") is True


def _tab_to_cfg(tab):
    """Abstract table set of FontCycle.tla -> TabCfg of the harness."""
    n, o, h, p, c = tab["name"], tab["os2"], tab["head"], tab["post"], tab["cff"]
    t = {"kind": "ttf" if tab["kind"] == "glyf" else "cff"}
    t["name"] = not _absent(n)
    t["fam"] = "plain" if _absent(n) else n["fam"]
    t["sub"] = "" if _absent(n) else " ".join(n["sub"])
    t["name_ver"] = False if _absent(n) else bool(n["verok"])
    t["os2"] = not _absent(o)
    if not _absent(o):
        sel = o["sel"]
        t.update(os2_v3=not o["v4"], weight=o["weight"], width=o["width"], sel_ital="ITALIC" in sel,
                 sel_bold="BOLD" in sel, sel_reg="REGULAR" in sel, sel_obl="OBLIQUE" in sel)
    t["head"] = not _absent(h)
    if not _absent(h):
        t.update(head_bold=h["bold"], head_ital=h["ital"])
    t["post"] = not _absent(p)
    ang = 0
    if not _absent(c):
        t["cff_wt"] = " ".join(c["weight"])
        ang = c["angle"] // 16
    if not _absent(p):
        ang = p["angle"] // 16      # model: 2^-20 degree, harness: 2^-16 degree (post and CFF carry the same angle)
    t["angle"] = ang
    return t


# (in-process rewrites, fresh-process rewrites) per generation group of FontCycleGen, Focus = "cover"
_GROUP_WRITES = {"layout": (4, 2), "shapes": (3, 2), "glyphs": (2, 1), "index": (2, 1), "big": (2, 1),
                 "hints": (1, 0), "classes": (1, 0), "coverage": (1, 0), "pairs": (1, 0),
                 "onefactor": (2, 1), "sweep": (0, 0)}

# quick tier: groups that are sampled by seed (stratified: every value of the key occurs), quota and key
_QUICK_SAMPLE = {
    "hints": (72, lambda c: (c["kind"], c["hcnt"], c["hwidth"], c["hmask"])),
    "coverage": (128, lambda c: (len(c["cov"]), 0 in c["cov"])),
}


def _sample(cases, quota, key, seed):
    """Seeded stratified sample: one case per key value first, then filled up to the quota."""
    import random
    rng = random.Random(seed * 7919 + 13)
    pool = list(cases)
    rng.shuffle(pool)
    seen, first, rest = set(), [], []
    for c in pool:
        k = key(c["cfg"])
        if k in seen:
            rest.append(c)
        else:
            seen.add(k)
            first.append(c)
    out = first + rest[:max(0, quota - len(first))]
    return sorted(out, key=lambda c: c["id"])


def _built_cases(ctx, n, glyph_counts, first_id, again, fresh, label, focus="random"):
    """Configurations from FontCycleGen: n random ones (-simulate, Focus "random"), or every configuration of the
    exhaustive cover (Focus "cover": groups layout, shapes, glyphs, index, big, onefactor, sweep; n is ignored)."""
    cfg = open(os.path.join(vlib.SPEC_DIR, "FontCycleGen.cfg")).read()
    cfg = re.sub(r"GlyphCounts = \{[^}]*\}", "GlyphCounts = {%s}" % ", ".join(str(g) for g in glyph_counts), cfg)
    cfg = cfg.replace('Focus = "random"', 'Focus = "%s"' % focus)
    if not ctx.quick():
        cfg = cfg.replace("Span = 5", "Span = 8")
        cfg = cfg.replace("IdxLens = {254, 255, 256, 257}", "IdxLens = {254, 255, 256, 257, 65534, 65535, 65536, 65537}")
        cfg = cfg.replace("Dense = FALSE", "Dense = TRUE")
    if focus == "random":
        res = ctx.tlc("FontCycleGen", cfg="FCGen.cfg", files={"FCGen.cfg": cfg}, workers=1, simulate=n, depth=80,
                      timeout=600, label=label)
    else:
        res = ctx.tlc("FontCycleGen", cfg="FCGen.cfg", files={"FCGen.cfg": cfg}, workers=4, timeout=600, label=label)
        n = 3000
    if res.violated:
        raise vlib.Infra("FontCycleGen violated %s: the configuration generator is wrong" % res.violated)
    if len(res.cases) < n:
        raise vlib.Infra("FontCycleGen produced %d of %d configurations" % (len(res.cases), n))
    cases = res.cases
    if focus != "random":       # exhaustive runs print in scheduling order: fix the order (ids seed the contents)
        cases = sorted(cases, key=lambda c: json.dumps(c, sort_keys=True))
    out = []
    for i, c in enumerate(cases):
        dom = c.pop("dom")
        ag, fr = _GROUP_WRITES.get(c.get("group"), (again, fresh))
        out.append({"id": first_id + i, "src": "built", "label": "in Dom" if dom else "outside Dom", "cfg": c,
                    "again": ag, "fresh": fr})
    return out


def _table_cases(ctx, n, first_id, again, fresh):
    res = ctx.tlc("FontCycle", cfg="FontCycleTabsGen.cfg", workers=1, simulate=n, depth=12, timeout=600,
                  label="FontCycle table sets (simulate)")
    if res.violated:
        raise vlib.Infra("FontCycle/FontCycleTabsGen violated %s" % res.violated)
    if len(res.cases) < n:
        raise vlib.Infra("FontCycleTabsGen produced %d of %d table sets" % (len(res.cases), n))
    out = []
    for i, c in enumerate(res.cases):
        out.append({"id": first_id + i, "src": "tables",
                    "label": "model predicts " + ("a fixed point" if c["fixed"] else "NO fixed point"),
                    "tab": _tab_to_cfg(c["tab"]), "again": again, "fresh": fresh, "_fixed": c["fixed"]})
    return out


# --------------------------------------------------------------------------- running and validating

def _run_chunks(ctx, binp, cases, d, name, size):
    """Run the harness on chunks of cases in parallel; returns [(cases, trace path)]."""
    chunks = [cases[i:i + size] for i in range(0, len(cases), size)]
    jobs = []
    for k, ch in enumerate(chunks):
        cp = os.path.join(d, "%s-cases-%d.ndjson" % (name, k))
        tp = os.path.join(d, "%s-trace-%d.ndjson" % (name, k))
        vlib.write_ndjson(cp, [{a: b for a, b in c.items() if not a.startswith("_")} for c in ch])
        jobs.append((ch, cp, tp))

    def one(job):
        ctx.run([binp, "run", job[1], job[2]], timeout=1500)
        return job

    with concurrent.futures.ThreadPoolExecutor(max_workers=max(1, min(8, ctx.workers))) as ex:
        list(ex.map(one, jobs))
    return [(j[0], j[2]) for j in jobs]


def _bad_cases(res):
    """BADCASE reports of FontCycleTrace (read from the TLC output itself: TLC wraps long tuples)."""
    bad = []
    text = open(res.out_path, errors="replace").read()
    for m in _BAD.finditer(text):
        why = sorted(x.strip() for x in m.group(4).split(",") if x.strip())
        bad.append({"case": int(m.group(1)), "line": int(m.group(2)), "clause": m.group(3), "why": why})
    return bad


def _sig(case, bad):
    why = bad["why"]
    if bad["clause"] == "rewrite":
        why = ["rewrite differs"]
    sig = {"clause": bad["clause"], "src": case["src"], "why": ",".join(why)}
    if case["src"] == "built" and bad["clause"] in ("rewrite", "bytes"):
        sig["tags"] = case["cfg"].get("tags", "")
    return sig


def _validate(ctx, cases, trace, label, pending):
    """Validate one trace; bad cases are queued in pending as (case, bad)."""
    nev = sum(1 for _ in open(trace))
    ok, line, res = ctx.validate_trace("FontCycleTrace", trace, label=label, traces=len(cases), timeout=1500)
    ctx.cov["evaluations"] += nev
    bad = _bad_cases(res)
    if ok:
        return
    if not bad:
        if line is not None and line > nev:
            raise vlib.Infra("trace %s ends inside a case (harness died?)" % trace)
        raise vlib.Infra("trace validation failed without a BADCASE line:\n" + res.error_text[-2000:])
    ctx.cov["traces_validated_against_impl"] += len(cases) - len(bad)
    byid = {c["id"]: c for c in cases}
    for b in bad:
        c = byid.get(b["case"])
        if c is None:
            raise vlib.Infra("TLC reported unknown case %s" % b["case"])
        pending.append((c, b))


def _self_contained(case):
    c = {a: b for a, b in case.items() if not a.startswith("_")}
    if c.get("path") and not c.get("b64"):
        c["b64"] = base64.b64encode(open(c["path"], "rb").read()).decode()
        c.pop("path")
    return c


def _describe(case, events, bad):
    gens = {e["i"]: e["f"] for e in events if e["ev"] == "gen"}
    files = [e for e in events if e["ev"] == "file"]
    parts = []
    if case["src"] == "built":
        parts.append("constructed font " + json.dumps(case["cfg"], sort_keys=True))
    elif case["src"] == "tables":
        parts.append("file with patched tables " + json.dumps(case["tab"], sort_keys=True) + " (" + case.get("label", "") + ")")
    else:
        parts.append("accepted bytes: " + case.get("label", ""))
    cl = bad["clause"]
    if cl in ("roundtrip", "fixedpoint"):
        a, b = (0, 1) if cl == "roundtrip" else (1, 2)
        for n in bad["why"]:
            keys = [n] if n in gens.get(a, {}) else [k for k in gens.get(a, {}) if k.startswith(n) or (n == "flags" and k.startswith("is_"))]
            for k in keys:
                va, vb = gens.get(a, {}).get(k), gens.get(b, {}).get(k)
                if va != vb:
                    parts.append("%s: g%d=%s g%d=%s" % (k, a, json.dumps(va)[:160], b, json.dumps(vb)[:160]))
        head = ("Read(Write(g0)) differs from g0 beyond the precision of the format in " if cl == "roundtrip"
                else "second read differs from first read (g2 != g1) in ") + ", ".join(bad["why"])
    elif cl == "bytes":
        head = "Write(g2) is not byte-identical to Write(g1) (%s)" % ", ".join(bad["why"])
        parts.append("files: " + ", ".join("b%d[%s]=%s/%d" % (e["i"], e["how"], e["sha"][:12], e["len"]) for e in files))
    elif cl == "rewrite":
        head = "writing the same font again gives different bytes (%s)" % ", ".join(bad["why"])
        parts.append("files: " + ", ".join("b%d[%s]=%s/%d" % (e["i"], e["how"], e["sha"][:12], e["len"]) for e in files))
    elif cl == "mutated":
        head = "Write changed the font it was given (projection before and after the writes differ) in " + ", ".join(bad["why"])
        for e in events:
            if e["ev"] == "after":
                for k in bad["why"]:
                    va, vb = gens.get(e["i"], {}).get(k), e["f"].get(k)
                    if va != vb:
                        parts.append("%s: g%d before=%s after=%s" % (k, e["i"], json.dumps(va)[:120], json.dumps(vb)[:120]))
    elif cl == "fail":
        msgs = [e for e in events if e["ev"] == "fail"]
        head = "a step of the cycle failed: " + "; ".join("%s: %s" % (e["step"], e["msg"]) for e in msgs)
    else:
        head = "recorded cycle is not a behaviour of FontCycleTrace (%s)" % ", ".join(bad["why"])
    return head + " -- " + "; ".join(parts)


def _replay_case(ctx, case, expect=None):
    """Re-record one case alone, validate it alone.  Returns the bad record or None."""
    binp = ctx.build("c01")
    d = ctx.subdir("replay")
    cp = os.path.join(d, "case.ndjson")
    c = {a: b for a, b in case.items() if not a.startswith("_")}
    if expect and expect["clause"] == "rewrite":
        c["again"] = max(c.get("again", 0), 12)     # map-order effects are probabilistic: look harder
        c["fresh"] = max(c.get("fresh", 0), 6)
    vlib.write_ndjson(cp, [c])
    tp = os.path.join(d, "trace.ndjson")
    ctx.run([binp, "run", cp, tp], timeout=900)
    ok, line, res = ctx.validate_trace("FontCycleTrace", tp, label="replay of one case", traces=0, timeout=600)
    if ok:
        return None, []
    bad = _bad_cases(res)
    if not bad:
        raise vlib.Infra("replay rejected without BADCASE:\n" + res.error_text[-1500:])
    return bad[0], vlib.read_ndjson(tp)


def _report(ctx, pending):
    """Reproduce bad cases in isolation (a few per signature) and report them."""
    groups = {}
    for case, bad in pending:
        groups.setdefault(json.dumps(_sig(case, bad), sort_keys=True), []).append((case, bad))
    for key, items in sorted(groups.items()):
        reproduced = 0
        for case, bad in items[:3]:
            bad2, events = _replay_case(ctx, case, expect=bad)
            if bad2 is None:
                ctx.notes.append("case %s (%s) marked bad (%s %s) did not reproduce in isolation" % (
                    case["id"], case["src"], bad["clause"], bad["why"]))
                continue
            reproduced += 1
            sig = _sig(case, bad2)
            what = "%s [%d case(s) with this signature in this run]" % (_describe(case, events, bad2), len(items))
            ctx.violation(what, sig=sig, case=_self_contained(case))
            break
        if reproduced == 0:
            raise vlib.Infra("no bad case of signature %s reproduced in isolation" % key)


# --------------------------------------------------------------------------- the check

def _model(ctx):
    full = not ctx.quick()
    cfg = open(os.path.join(vlib.SPEC_DIR, "FontCycle.cfg")).read()
    if full:
        cfg = cfg.replace('Scale = "small"', 'Scale = "full"')
    r = ctx.tlc("FontCycle", cfg="FCb.cfg", files={"FCb.cfg": cfg}, timeout=1500,
                label="FontCycle exhaustive, source built, scale %s" % ("full" if full else "small"))
    if not r.ok:
        raise vlib.Infra("FontCycle.tla (source built) violates %s on the model -- the spec is wrong:\n%s"
                         % (r.violated, r.error_text[:1500]))
    tcfg = open(os.path.join(vlib.SPEC_DIR, "FontCycleTabs.cfg")).read()
    if full:
        tcfg = tcfg.replace('Scale = "small"', 'Scale = "full"')
    r = ctx.tlc("FontCycle", cfg="FCt.cfg", files={"FCt.cfg": tcfg}, timeout=1500,
                label="FontCycle exhaustive, source tables, Convergent, scale %s" % ("full" if full else "small"))
    if not r.ok:
        raise vlib.Infra("FontCycle.tla (source tables) violates %s on the model:\n%s" % (r.violated, r.error_text[:1500]))
    if full:
        # Design history, not a verdict: the reader before proposed-fixes/C01-2 was applied ("asis") has table sets
        # whose first cycle is not a fixed point; the current ("repaired") reader has none.
        r = ctx.tlc("FontCycle", cfg="FontCycleTabsFP.cfg", timeout=1500, count=False,
                    label="FontCycle, source tables, reader before the C01-2 repair: first cycle a fixed point?")
        ctx.notes.append("model of the reader BEFORE the C01-2 repair: first cycle a fixed point for every table set: %s"
                         % ("no, TLC counterexample to %s (as found on the real code then)" % r.violated if r.violated else "yes"))
        r = ctx.tlc("FontCycle", cfg="FontCycleTabsFPRepaired.cfg", timeout=1500, count=False,
                    label="FontCycle, source tables, current reader: first cycle a fixed point? (prediction)")
        ctx.notes.append("model of the current reader: first cycle is a fixed point for every table set: %s"
                         % ("yes (TLC, exhaustive)" if r.ok else "NO, counterexample to %s; the table-set replay decides" % r.violated))
    ctx.cov["exhaustive"] = True
    ctx.cov["bounds"] = {
        "built": "6 style flags x weight x width x angle {0, exact, rounds-to-0, inexact} x family {plain, Bold, Italic, Semi Bold} "
                 "x versions x time stamps x {glyf, cff}, scale " + ("full" if full else "small"),
        "tables": "name {absent, 3 families x 6 sub-families x version parseable or not} x OS/2 {absent, v3/v4 x 4 weights x 16 fsSelection sets} "
                  "x head macStyle (absent for CFF) x post {absent, 2 angles} x CFF FontInfo",
    }


def run(ctx):
    ctx.assumptions += [
        "constructed fonts carry at least one time stamp (property text); FontMatrix = 1/unitsPerEm",
        "bulk data (outlines, cmap subtables, GSUB/GPOS/GDEF) are compared as digests of a canonical serialisation "
        "(maps sorted, nil = empty); per-glyph digests and width lists up to 600 glyphs",
        "a missing GSUB may come back as the synthetic ligature table; cap/x-height 0 may come back derived; "
        "script-list tags without the -x- extension come back in normal form (compared only when already normal)",
        "style flags of a constructed font are compared only when FontCycleOps!InDom holds for it",
    ]
    _model(ctx)

    binp = ctx.build("c01")
    d = ctx.subdir("c01")
    pending = []

    # R: configuration cover
    nb = ctx.pick(240, 3000)
    built = _built_cases(ctx, nb, [1, 2, 30, 255, 256, 257], 1, ctx.pick(3, 4), ctx.pick(1, 2),
                         "FontCycleGen configurations (simulate)")
    large = _built_cases(ctx, ctx.pick(4, 14), ctx.pick([2000], [2000, 65535]), 100001, 1, 1,
                         "FontCycleGen configurations, large glyph counts (simulate)")
    # every run, exhaustively (FontCycleGen Focus "cover"): all layout-table kinds with rich script lists; glyf table
    # sizes x raw-table layouts with a multi-subtable cmap; composites with nil / empty / even / odd instructions;
    # CFF INDEX data lengths around the offset-size switches; tables beyond the parser's 1024-byte window; every scalar
    # through its domain one at a time; weight 0..1000 x {regular, bold, none} and the other threshold scalars densely;
    # CFF stem hint counts at the stack limits; every class definition table over Span glyphs and every coverage table
    # over 8 glyphs in all their uses; related scalars (times, vertical metrics, underline, heights, slant) in every order
    cover = _built_cases(ctx, 0, [30], 110001, 2, 1, "FontCycleGen cover (exhaustive)", focus="cover")
    ncover = len(cover)
    if ctx.quick():
        kept = []
        for g in sorted(set(c["cfg"]["group"] for c in cover)):
            part = [c for c in cover if c["cfg"]["group"] == g]
            if g in _QUICK_SAMPLE:
                part = _sample(part, _QUICK_SAMPLE[g][0], _QUICK_SAMPLE[g][1], ctx.seed)
            kept += part
        cover = sorted(kept, key=lambda c: c["id"])
        ctx.notes.append("quick tier: %d of the %d configurations of the exhaustive cover are run (groups %s sampled by seed)"
                         % (len(cover), ncover, ", ".join(sorted(_QUICK_SAMPLE))))
    sweep = [c for c in cover if c["cfg"]["group"] == "sweep"]
    cover = [c for c in cover if c["cfg"]["group"] != "sweep"]
    missing = set(_GROUP_WRITES) - set(c["cfg"]["group"] for c in cover + sweep)
    if missing:
        raise vlib.Infra("FontCycleGen cover lacks the groups %s" % sorted(missing))
    ctx.sample({"tlc_configuration": built[0]})
    # R: abstract table sets
    nt = ctx.pick(300, 4000)
    tabs = _table_cases(ctx, nt, 200001, 2, ctx.pick(1, 1))
    ctx.sample({"tlc_table_set": {a: b for a, b in tabs[0].items() if not a.startswith("_")}})
    # other accepted bytes
    cdir = os.path.join(d, "corpus")
    clist = os.path.join(d, "corpus.ndjson")
    rc, out = ctx.run([binp, "corpus", ctx.repo, cdir, clist], env={"C01_MUTANTS": str(ctx.pick(400, 6000))}, timeout=900)
    stats = json.loads(out.strip().splitlines()[-1])
    corpus = vlib.read_ndjson(clist)
    for c in corpus:
        c["id"] += 300000
        c["again"] = 2
        c["fresh"] = 1 if not c["label"].startswith("mutant") else 0
    ctx.notes.append("byte-string candidates: %d, accepted by sfnt.Read: %d" % (stats["candidates"], stats["accepted"]))
    if stats["accepted"] < 20:
        raise vlib.Infra("only %d corpus byte strings accepted" % stats["accepted"])

    # the harness runs on small chunks in parallel; the traces of a group are validated together
    # (at most 1500 cases per TLC run)
    groups = [("large", large, 1), ("cover", cover, 6), ("sweep", sweep, 250), ("built", built, 30), ("tables", tabs, 75), ("bytes", corpus, 100)]
    for name, cases, size in groups:
        done = _run_chunks(ctx, binp, cases, d, name, size)
        if name == "built":
            for e in vlib.read_ndjson(done[0][1])[1:3]:
                ctx.sample({"recorded_event": e})
        batch, nb = [], 0
        for k, (ch, tp) in enumerate(done):
            batch.append((ch, tp))
            nb += len(ch)
            if nb >= 1500 or k == len(done) - 1:
                merged = os.path.join(d, "%s-merged-%d.ndjson" % (name, k))
                with open(merged, "wb") as fo:
                    for _, t in batch:
                        fo.write(open(t, "rb").read())
                        os.remove(t)
                allc = [c for chh, _ in batch for c in chh]
                _validate(ctx, allc, merged, "FontCycleTrace: %s (%d cases)" % (name, len(allc)), pending)
                os.remove(merged)
                batch, nb = [], 0

    # diagnostics: model prediction vs. real code for the table sets
    badids = {c["id"] for c, b in pending if b["clause"] in ("fixedpoint", "bytes")}
    agree = sum(1 for c in tabs if c["_fixed"] == (c["id"] not in badids))
    ctx.notes.append("table sets: model prediction (fixed point or not) agrees with the real code on %d of %d; "
                     "real code is not a fixed point on %d" % (agree, len(tabs), sum(1 for c in tabs if c["id"] in badids)))

    distinct = set()
    for c in built + large + cover + sweep:
        distinct.add(json.dumps(c["cfg"], sort_keys=True))
    for c in tabs:
        distinct.add(json.dumps(c["tab"], sort_keys=True))
    for c in corpus:
        distinct.add(c["path"])
    ctx.cov["distinct_nontrivial"] = len(distinct)
    ctx.cov["rule"] = ("distinct TLC-drawn font configurations + distinct TLC-drawn table sets + distinct byte strings accepted by "
                       "sfnt.Read; each is one five-step cycle with repeated writes; evaluations = recorded events validated by TLC")
    ctx.cov["cases"] = {"built": len(built) + len(large) + len(cover) + len(sweep), "tables": len(tabs), "bytes": len(corpus), "marked_bad_by_TLC": len(pending)}
    if pending:
        _report(ctx, pending)


def replay(ctx, obj):
    case = obj["case"]
    bad, events = _replay_case(ctx, case, expect={"clause": obj.get("sig", {}).get("clause", "")})
    if bad is None:
        ctx.notes.append("replay: the case is accepted by FontCycleTrace")
        return
    ctx.violation(_describe(case, events, bad), sig=_sig(case, bad), case=case)
