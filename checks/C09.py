"""C09 -- character maps encode/decode faithfully and the best subtable is selected.

1. TLC, exhaustive on scaled-down word sizes (CmapMC.tla): the decode operators of Cmap.tla
   (written from the OpenType cmap chapter) invert the spec's reference encoders for every map,
   and the O(span) whole-code-space test used on recorded tables (Agree4/Pairs4) coincides with
   the pointwise search rule Dec4 on every small table body.
2. R: TLC enumerates run/gap structures (CmapGen.tla) and key sets x sharing patterns
   (CmapTableGen.tla, exhaustively model-checked directory rules); each CASE carries the map and
   spec-encoded subtables/tables.
3. The harness (cmd/c09) realises each case with the real cmap package -- Format4/Format12.Encode,
   Table.Get + Lookup over the code space, Table.Encode/Decode/GetBest, and for a sample
   golang.org/x/image GlyphIndex on a font carrying the subtable -- plus seeded big maps (V).
4. Object model (CmapHist.tla): results are handed out and retained; ResultsStable is model-checked and
   must fail with a re-used scratch buffer; TLC enumerates every history of 2 (thorough 3) calls over
   {Format0/4/12.Encode, Table.Get on formats 0/4/6/12, Table.Encode, cmap.Decode} x argument shapes; the
   harness keeps the real slices/maps and records each result when handed out, after all later calls, and
   (decoded subtables) after the bytes they came from were overwritten.
5. Selection with ties (CmapSel.tla): several languages per (platform, encoding), every insertion order,
   Get/GetNoLang/GetBest called 64 times per site in several fresh processes, before and after
   Encode/Decode: the answer must be a candidate and the same every time.
6. Directory level with RAW bodies (CmapRawGen.tla: every format number a Table can hold, odd and even
   lengths); API agreement (Get / GetNoLang / GetBest swept over the code space must denote the map the
   subtable defines for its platform, GetBest = Get on a key of the best class; tables without any Unicode
   subtable enumerated exhaustively); size law at the 16-bit boundary (CmapSizeGen.tla: families whose
   tightest encoding is known in closed form, largest n that fits and the next one beyond).
7. TLC judges every recorded event with CmapTrace.tla; a failing clause is re-recorded in
   isolation (complete sweep 0..0x10FFFF) and re-judged before it is reported.
"""
import json
import os
import re
import threading
from concurrent.futures import ThreadPoolExecutor

import vlib

LEVEL = "model_checking"
MANIFEST = {
    "text": "Cmap.tla transcribes the OpenType cmap chapter (format 0/4/6/12 decode rules, format-4 well-formedness "
            "incl. search fields, the encoding-record directory with shared subtables, full-Unicode > BMP > legacy). "
            "TLC checks exhaustively on scaled-down word sizes that the decode operators invert the spec's encoders for "
            "every map and that the whole-code-space test used on recorded tables equals the pointwise search rule on "
            "every small table body; TLC enumerates run/gap structures (anchored at 0, 0x20, 0x7D, 0xFFFE, 0xFFFF, the "
            "BMP edge and 0x10FFFF) and key-set x sharing patterns; the harness realises them with the real "
            "cmap.Format4/Format12.Encode, Table.Get/Lookup, Table.Encode/Decode/GetBest and x/image GlyphIndex, adds "
            "seeded big maps (64 KiB format-4 limit, 65536-entry format 12), and TLC judges every recorded event with "
            "CmapTrace.tla (well-formedness, agreement at every code point, library decode, x/image decode, spec-encoded "
            "format 0/6/non-minimal format 4 tables through the library decoder, directory/sharing/best choice). "
            "CmapHist.tla is an object model of handed-out results (ResultsStable; must fail with a re-used scratch "
            "buffer): every history of 2-3 calls is executed with the real results retained and re-read after later "
            "calls; CmapSel.tla enumerates tables with several languages per (platform, encoding) in every insertion "
            "order, each selection call is repeated 64 times in several fresh processes and must give one candidate. "
            "CmapRawGen.tla puts raw bodies of every format number (0,2,4,6,8,10,12,13,14) and length parity into the "
            "directory (Encode/Decode must return the same key -> bytes map); every access path (Get, GetNoLang, GetBest) "
            "is swept and must denote the subtable's map for its platform, GetBest equal to Get; CmapSizeGen.tla states "
            "map families whose tightest format-4 encoding is just below 65535 bytes: the encoder must write a table "
            "whose length field is its real length and that decodes to the map (or refuse loudly), never wrap.",
    "note": "Trusted: TLC, the JSON trace encoding, the harness' Lookup sweeps (complete 0..0x10FFFF on a sample and in "
            "every replay; otherwise plane 0 completely plus the images of all mapped codes in every plane and 4096 "
            "random code points). x/image is a second opinion on library-encoded tables only. Out of domain: format-4 "
            "maps that need more than 65535 bytes, an explicit glyph-0 entry following glyph 65535 in a format-12 map, "
            "keys with a non-zero language on non-Macintosh platforms.",
    "technique": "TLA+ model checking (TLC) of Cmap.tla/CmapMC.tla/CmapTableGen.tla + TLC-generated cases replayed into "
                 "the real cmap package + trace validation of the recorded calls against CmapTrace.tla",
}

_FAIL = re.compile(r'^<<"FAIL", (\d+), (\d+), "(\w+)", "(\w+)">>')

_EXPLAIN = {
    ("enc", "wf"): "the subtable emitted by Encode is not well formed (header, search fields, segment order, last segment, bounds)",
    ("enc", "agree"): "decoded by the rules of the format, the subtable emitted by Encode does not give the map back on the whole code space",
    ("enc", "probe"): "the search rule of the format gives another glyph than the map at a segment boundary / mapped code of the emitted subtable",
    ("enc", "lib"): "the library's own decode (Table.Get + Lookup) of the subtable it emitted differs from the map",
    ("enc", "lib_hi"): "Lookup on the library's decode of its own format-4 subtable answers a non-zero glyph for code points beyond 0xFFFF",
    ("enc", "ximg"): "golang.org/x/image GlyphIndex on a font carrying the emitted subtable differs from the map",
    ("enc", "map"): "harness produced an ill-formed input map",
    ("dec", "lib"): "the library decode of a specification-encoded subtable differs from the mapping the format defines",
    ("dec", "lib_hi"): "the library decode of a specification-encoded 16-bit subtable answers non-zero glyphs beyond 0xFFFF",
    ("mac", "mac0"): "format 0 under the Macintosh key is neither the raw byte map nor its Mac Roman -> Unicode translation",
    ("mac", "mac6"): "format 6 under the Macintosh key is neither the raw code map nor its Mac Roman -> Unicode translation",
    ("mac", "mac4"): "format 4 under the Macintosh key is neither the raw code map nor its Mac Roman -> Unicode translation",
    ("mac", "mac_06"): "the same byte map stored as format 0 and as format 6 under the Macintosh key decodes to different Lookup functions (one is read as raw codes, the other as Mac Roman)",
    ("mac", "mac_64"): "the same byte map stored as format 6 and as (non-minimal) format 4 under the Macintosh key decodes to different Lookup functions",
    ("mac", "mac_hi"): "a Macintosh-key subtable answers non-zero glyphs beyond 0xFFFF",
    ("tenc", "dir"): "Table.Encode output is not a well-formed directory of exactly the keys and subtables put in",
    ("tenc", "share"): "Table.Encode does not share exactly the identical subtables",
    ("tenc", "libdec"): "cmap.Decode(Table.Encode(t)) is not t",
    ("tenc", "best"): "GetBest did not pick a subtable of the best class present (full Unicode > BMP > Macintosh Roman)",
    ("tdec", "libdec"): "cmap.Decode of a specification-encoded table loses or changes keys / subtables",
    ("tdec", "redir"): "re-encoding a decoded table does not give a well-formed directory of the same keys and subtables",
    ("tdec", "reshare"): "re-encoding a decoded table does not keep the shared subtables shared",
    ("tdec", "best"): "GetBest on a decoded table did not pick a subtable of the best class present",
    ("tenc", "get_map"): "Table.Get(key).Lookup does not denote the rune -> glyph map the subtable defines for its platform's encoding",
    ("tenc", "nolang_map"): "GetNoLang(platform, encoding).Lookup is not the map of a subtable of that platform/encoding (raw or Mac Roman reading)",
    ("tenc", "best_get"): "GetBest and Get disagree on the same subtable: the subtable GetBest returns is not the rune -> glyph map "
                          "that Get returns for a key of the best class (e.g. the Mac Roman fallback read as raw codes)",
    ("tdec", "get_map"): "after cmap.Decode, Table.Get(key).Lookup does not denote the map the subtable defines for its platform's encoding",
    ("tdec", "nolang_map"): "after cmap.Decode, GetNoLang(platform, encoding).Lookup is not the map of a candidate subtable",
    ("tdec", "best_get"): "after cmap.Decode, GetBest and Get disagree on the same subtable (different rune -> glyph maps)",
    ("renc", "dir"): "Table.Encode of RAW subtable bodies (every format number, odd and even lengths) is not a well-formed directory "
                     "whose records point at exactly the bytes put in",
    ("renc", "share"): "Table.Encode of raw bodies does not share exactly the identical subtables",
    ("renc", "libdec"): "cmap.Decode(Table.Encode(t)) is not t for a table of raw subtable bodies (odd lengths / formats 2, 8, 10, 13, 14)",
    ("rdec", "libdec"): "cmap.Decode of a specification-encoded table with raw bodies loses or changes keys / bytes",
    ("rdec", "redir"): "re-encoding a decoded table of raw bodies does not give a directory of the same key -> bytes map",
    ("rdec", "reshare"): "re-encoding a decoded table of raw bodies does not keep shared subtables shared",
    ("hE", "correct"): "call history: the subtable an encoder handed out is not well formed / does not decode to the map",
    ("hE", "stable"): "call history: the byte slice an encoder handed out CHANGED after later calls of the package "
                      "(the result lives in storage that later calls re-use)",
    ("hE", "input"): "call history: an encoder modified the map it was given",
    ("hG", "correct"): "call history: Table.Get decoded a well-formed subtable to another mapping than the format defines",
    ("hG", "stable"): "call history: a decoded Subtable answers Lookup differently after later calls of the package",
    ("hG", "indep"): "call history: a decoded Subtable changed when the bytes it was decoded from were overwritten",
    ("hG", "input"): "call history: Table.Get modified the bytes it was given",
    ("hT", "correct"): "call history: Table.Encode of subtables handed out earlier is not a directory of exactly these subtables",
    ("hT", "stable"): "call history: the bytes Table.Encode handed out changed after later calls",
    ("hT", "input"): "call history: the subtables of a Table changed after Table.Encode and later calls",
    ("hD", "correct"): "call history: cmap.Decode of a well-formed table does not give its keys and subtables",
    ("hD", "stable"): "call history: the Table cmap.Decode handed out changed after later calls",
    ("hD", "input"): "call history: cmap.Decode (or a later call) modified the bytes it was given",
    ("sel", "get"): "Table.Get(key) did not (always) return the subtable stored under exactly that key",
    ("sel", "nolang_member"): "GetNoLang(platform, encoding) returned something that is not a subtable of that platform/encoding",
    ("sel", "nolang_det"): "GetNoLang(platform, encoding) is not a function of the table: with several languages for one "
                           "(platform, encoding) different calls / processes / insertion orders got different subtables",
    ("sel", "best"): "GetBest is not deterministic or not of the best class present",
    ("sel", "dok"): "a table with several languages per (platform, encoding) does not survive Encode/Decode",
    ("sel", "dget"): "after Encode/Decode, Table.Get(key) did not return the subtable stored under that key",
    ("sel", "dnolang_member"): "after Encode/Decode, GetNoLang returned a subtable of another platform/encoding",
    ("sel", "dnolang_det"): "after Encode/Decode, GetNoLang is not a function of the table (answers differ between calls / processes)",
    ("sel", "dbest"): "after Encode/Decode, GetBest is not deterministic or not of the best class present",
    ("sel", "calls"): "harness made fewer than 50 calls per selection site",
}
_NOTE_ONLY = {
    ("sel", "nolang_first"): "GetNoLang is deterministic but does not pick the first matching record in directory order (lowest "
                             "language) -- not promised by the repository",
    ("sel", "dnolang_first"): "GetNoLang is deterministic but does not pick the first matching record in directory order (lowest "
                              "language) -- not promised by the repository",
    ("enc", "nowrap"): "a format-4 map just BEYOND the 64 KiB limit (outside the property's domain) is written with a wrapped "
                       "16-bit length field instead of being refused",
    ("renc", "tile"): "Table.Encode leaves gaps / overlaps between the stored subtables (offsets are not the running sum of "
                      "the emitted lengths); legal as long as every record points at the right bytes",
    ("rdec", "tile"): "re-encoding leaves gaps / overlaps between the stored subtables; legal as long as every record points "
                      "at the right bytes",
}


def _account(ctx, res, label, extra=None):
    ctx.cov["states"] += res.distinct
    ctx.cov["transitions"] += res.generated
    if len(ctx.cov["tlc_runs"]) < 60:
        r = {"label": label, "cmd": res.cmd, "generated": res.generated, "distinct": res.distinct,
             "diameter": res.diameter, "wall_s": round(res.wall, 2), "cases": len(res.cases), "violated": res.violated}
        r.update(extra or {})
        ctx.cov["tlc_runs"].append(r)


def _tlc_trace(ctx, path, heap="3g", timeout=1200):
    """One TLC trace-validation run (no shared accounting: safe to call from threads)."""
    res = ctx.tlc("CmapTrace", trace_file=path, timeout=timeout, heap=heap, count=False,
                  label="CmapTrace " + os.path.basename(path))
    if res.rc != 0 or res.violated is not None or res.rejected_line is not None:
        raise vlib.Infra("CmapTrace did not consume %s (rc=%s, violated=%s, line=%s):\n%s" % (
            path, res.rc, res.violated, res.rejected_line, res.error_text[-1500:]))
    fails = []
    for ln in res.prints:
        m = _FAIL.match(ln)
        if m:
            fails.append((int(m.group(1)), int(m.group(2)), m.group(3), [m.group(4)]))
    return res, fails


def _efmt(e):
    return e.get("fmt", 0)


def _validate_files(ctx, files, failures, heap="3g", par=None):
    """Validate chunk files in parallel; collect failing (event, clause, format) classes with their smallest case."""
    par = par or max(1, min(8, ctx.workers // 2))
    with ThreadPoolExecutor(max_workers=par) as ex:
        results = list(ex.map(lambda f: _tlc_trace(ctx, f, heap=heap), files))
    for f, (res, fails) in zip(files, results):
        nev = sum(1 for _ in open(f))
        ctx.cov["evaluations"] += nev
        _account(ctx, res, "CmapTrace " + os.path.basename(f), {"events": nev, "failing_events": len(fails)})
        if fails:
            evs = vlib.read_ndjson(f)
            for line, cid, ev, clauses in fails:
                e = evs[line - 1]
                for cl in clauses:
                    if (ev, cl) in _NOTE_ONLY:
                        msg = "note (not a verdict): " + _NOTE_ONLY[(ev, cl)]
                        if msg not in ctx.notes:
                            ctx.notes.append(msg)
                        continue
                    key = (ev, cl, _efmt(e))
                    size = len(e.get("ic", e.get("w", e.get("w0", e.get("keys", [])))))
                    g = failures.setdefault(key, {"size": size, "cid": cid, "count": 0, "vars": set(), "alt": []})
                    g["count"] += 1
                    if cid not in g["alt"] and len(g["alt"]) < 6:
                        g["alt"].append(cid)
                    if ev == "dec" and e.get("var"):
                        g["vars"].add(e["var"])
                    if size < g["size"]:
                        g["size"], g["cid"] = size, cid
        os.remove(f)


def _replay_case(ctx, case):
    """Re-record one case alone (complete sweeps) and judge it alone.  Returns the list of
    (event kind, clause, event) that TLC rejects.  Thread-safe (no shared accounting)."""
    binp = ctx.build("c09")
    d = ctx.subdir("replay")
    cp = os.path.join(d, "case.json")
    json.dump(case, open(cp, "w"))
    tp = os.path.join(d, "trace.ndjson")
    ctx.run([binp, "one", cp, tp])
    evs = vlib.read_ndjson(tp)
    res, fails = _tlc_trace(ctx, tp, heap="6g")
    out = []
    for line, cid, ev, clauses in fails:
        for cl in clauses:
            out.append((ev, cl, evs[line - 1]))
    return out


def _short(e):
    s = {}
    for k, v in e.items():
        if isinstance(v, list) and len(v) > 40:
            s[k] = v[:40] + ["... %d more" % (len(v) - 40)]
        else:
            s[k] = v
    return json.dumps(s)[:1500]


def _report(ctx, failures, cases_by_id):
    """Replay the smallest witness of every failing (event, clause, format) class in isolation."""
    keys = sorted(failures, key=str)
    for k in keys:
        if failures[k]["cid"] not in cases_by_id:
            raise vlib.Infra("failing event of unknown case %s" % failures[k]["cid"])
    with ThreadPoolExecutor(max_workers=max(1, min(8, ctx.workers // 2))) as ex:
        results = list(ex.map(lambda k: _replay_case(ctx, cases_by_id[failures[k]["cid"]]), keys))
    unrepro = []
    for k, got in zip(keys, results):
        ev, cl, fmt = k
        g = failures[k]
        ctx.cov["traces_validated_against_impl"] += 1
        same = [x for x in got if x[0] == ev and x[1] == cl and _efmt(x[2]) == fmt]
        for alt in g["alt"]:
            # the smallest witness may depend on the state earlier cases left behind: try a few others
            if same or alt == g["cid"] or alt not in cases_by_id:
                continue
            ctx.cov["traces_validated_against_impl"] += 1
            same = [x for x in _replay_case(ctx, cases_by_id[alt]) if x[0] == ev and x[1] == cl and _efmt(x[2]) == fmt]
            if same:
                g["cid"] = alt
        if not same:
            # a failure that depends on what ELSE the process did (e.g. results clobbered by the calls of other
            # cases): not a verdict by itself; the history phase is where such defects reproduce
            unrepro.append("%s/%s fmt=%s (case %s, %d events)" % (ev, cl, fmt, g["cid"], g["count"]))
            continue
        if cl == "specwf" or (ev == "enc" and cl == "map"):
            raise vlib.Infra("the specification's own table / the harness input is ill-formed (%s/%s, case %s): %s"
                             % (ev, cl, g["cid"], _short(same[0][2])))
        sig = {"event": ev, "clause": cl, "fmt": fmt}
        if g["vars"]:
            sig["variants"] = ",".join(sorted(g["vars"]))     # which spec-encoded variants fail (dec events)
        what = ("cmap: %s [event %s, clause %s, format %s%s; %d failing events in this run]. Smallest witness: %s"
                % (_EXPLAIN.get((ev, cl), "clause rejected by CmapTrace.tla"), ev, cl, fmt,
                   (", spec-encoded variants " + ",".join(sorted(g["vars"]))) if g["vars"] else "", g["count"],
                   _short(same[0][2])))
        ctx.violation(what, sig=sig, case=cases_by_id[g["cid"]])
    if unrepro:
        ctx.notes.append("failing classes that did not fail again when their case was run alone (they depend on other "
                         "calls made by the same process): " + "; ".join(unrepro))
        if not ctx.violations and not ctx.known_hits:
            raise vlib.Infra("failures did not reproduce in isolation: " + "; ".join(unrepro))


def _merge_sel(a, b):
    """Union of the distinct answers two processes observed for the same case (pure data plumbing)."""
    if a["case"] != b["case"]:
        raise vlib.Infra("selection outputs of two processes are not aligned")
    m = dict(a)
    m["procs"] = a["procs"] + b["procs"]
    m["calls"] = min(a["calls"], b["calls"])
    m["dok"] = min(a["dok"], b["dok"])
    for f in ("gets", "nolang", "dgets", "dnolang"):
        if len(a[f]) != len(b[f]):
            m["dok"] = 0
            continue
        m[f] = [x[:-1] + [sorted(set(x[-1]) | set(y[-1]))] for x, y in zip(a[f], b[f])]
    for f in ("best", "dbest"):
        m[f] = sorted(set(a[f]) | set(b[f]))
    return m


def _cfg(name):
    return open(os.path.join(vlib.SPEC_DIR, name)).read()


def run(ctx):
    ctx.assumptions += [
        "format-4 inputs have an encoding of at most 65535 bytes (one delta segment per mapped code, or one explicit "
        "array over the span); larger maps are outside the property's domain",
        "format-12 inputs have at most 65536 entries and no explicit glyph-0 entry directly after glyph 65535",
        "keys on non-Macintosh platforms have language 0 (the format requires it); Mac test maps use codes < 256",
        "Lookup sweeps: complete 0..0x10FFFF on every 16th (thorough: 64th) structure case, on all big maps and in "
        "every replay; otherwise plane 0 completely, the images of all mapped codes and plane corners in planes 1..16, "
        "mapped codes +-1 and 4096 seeded random code points; at most 64 non-zero answers beyond 0xFFFF are logged for "
        "16-bit formats (one is already a disagreement)",
        "x/image (format 4: binary search, no idDelta on arrays; <= 20000 segments) judges library-encoded tables only",
        "best-subtable oracle demands only the class order full Unicode {(3,10),(0,4)} > BMP {(3,1),(0,3)} > (1,0) "
        "among language-0 keys; nothing when none of these is present",
        "a Table returned by cmap.Decode is a view of the bytes it was given (subslices); the caller leaves them alone. "
        "Subtables returned by Table.Get must not depend on their input bytes afterwards",
        "GetNoLang: the repository only promises a deterministic answer (comment in cmap.go); WHICH language wins "
        "(today: first record in directory order = lowest language) is reported as a note, not demanded",
        "size families: a map is in the domain iff the closed-form (= reference encoder) size is <= 65535; there a panic of "
        "the encoder is accepted (minimality is not promised), a wrapped length field is not; just beyond the limit "
        "nothing is demanded (silent wrapping is reported as a note)",
        "GetNoLang: the repository's own test reads a (1,0) subtable through it as raw codes, so both readings are accepted; "
        "Get and GetBest must agree with each other and be the raw or (uniformly) the Mac Roman reading",
        "raw bodies: gaps/padding between stored subtables are legal; only 'every record points at the bytes put in' is a verdict",
        "Macintosh key: either reading (raw codes / Mac Roman -> Unicode) is accepted, but formats 0, 6 and 4 of one "
        "map must be read the same way",
    ]
    thorough = not ctx.quick()
    W = ctx.workers
    pool = ThreadPoolExecutor(max_workers=8)

    def bg(label, module, **kw):
        """Start a TLC run in the background (accounted when collected)."""
        kw.setdefault("count", False)
        kw["label"] = label
        return label, pool.submit(lambda: ctx.tlc(module, **kw))

    # ---- 1. the design: the decode operators and the whole-space test, exhaustively on small word sizes
    maxcode = 5 if thorough else 4
    ga = 2 if thorough else 1
    m12 = _cfg("CmapMCMaps12.cfg")
    if thorough:
        m12 = m12.replace("N12 = 7", "N12 = 8").replace("G12 = 2", "G12 = 3").replace("MaxCode = 3", "MaxCode = 4")
    mcw = max(2, W // 2) if thorough else max(2, W // 3)
    mc = [
        bg("CmapMC maps 0..%d -> 0..%d: Dec4/Dec6 invert the encoders, Agree4/Pairs4 = pointwise Dec4" % (maxcode, maxcode),
           "CmapMC", cfg="MCm.cfg", workers=mcw, timeout=3000,
           files={"MCm.cfg": _cfg("CmapMCMaps.cfg").replace("MaxCode = 4", "MaxCode = %d" % maxcode)
                  }),
        bg("CmapMC format 12: every map over %d codes" % (8 if thorough else 7), "CmapMC", cfg="MC12.cfg",
           workers=mcw, timeout=3000, files={"MC12.cfg": m12}),
        bg("CmapMC every format-4 body (segCount <= 2, glyph array <= %d, all word values)" % ga, "CmapMC",
           cfg="MCb.cfg", workers=mcw, timeout=3000,
           files={"MCb.cfg": _cfg("CmapMCBodies.cfg").replace("GA = 1", "GA = %d" % ga)}),
        bg("CmapMC format 0 at the real word size", "CmapMC", cfg="CmapMCBytes.cfg", workers=1, timeout=600),
    ]
    witness = bg("CmapMC non-vacuity witness (an explicit array with idDelta # 0 exists among the bodies)", "CmapMC",
                 cfg="MCw.cfg", workers=2, timeout=600,
                 files={"MCw.cfg": _cfg("CmapMCBodies.cfg").replace("INVARIANT BodyOK", "INVARIANT BodyWitness")})

    # ---- 2. generation (R): table configurations and run/gap structures
    tgens = [bg("CmapTableGen simulate, 3 contents (directory rules + cases)", "CmapTableGen", workers=1,
                simulate=ctx.pick(600, 3000), depth=20, timeout=900)]
    if thorough:
        tgens.append(bg("CmapTableGen exhaustive, 2 contents (directory rules + cases)", "CmapTableGen", cfg="CmapTableGenX.cfg",
                        files={"CmapTableGenX.cfg": _cfg("CmapTableGen.cfg").replace("NC = 3", "NC = 2")},
                        workers=max(2, W // 2), timeout=1500))
    tgens.append(bg("CmapTableGen exhaustive, no Unicode subtable (legacy fallback), 3 contents", "CmapTableGen",
                    cfg="CmapTableGenL.cfg", workers=2, timeout=900,
                    files={"CmapTableGenL.cfg": _cfg("CmapTableGen.cfg").replace("NoUnicode = FALSE", "NoUnicode = TRUE")}))
    rgen = bg("CmapRawGen: raw bodies of every format number and length parity (directory rules, tiling + cases)", "CmapRawGen",
              workers=1, simulate=ctx.pick(400, 5000), depth=12, timeout=900)
    zgen = bg("CmapSizeGen: families at the 16-bit length boundary (closed form = reference encoding for small n)",
              "CmapSizeGen", cfg="CmapSizeGenN.cfg", workers=2, timeout=900,
              files={"CmapSizeGenN.cfg": _cfg("CmapSizeGen.cfg").replace("Steps = {0}", "Steps = %s" % ctx.pick("{0, 1}", "{0, 1, 2, 40}"))})
    nsim = ctx.pick(3000, 16000)
    sgens = [bg("CmapGen simulate (<= 4 blocks)", "CmapGen", workers=1, simulate=nsim, depth=40, timeout=1500)]
    if thorough:
        xcfg = _cfg("CmapGen.cfg").replace("MaxBlocks = 4", "MaxBlocks = 2")
        xcfg = xcfg.replace("Gaps = {0, 1, 2, 3, 4, 5, 6, 200}", "Gaps = {0, 1, 5}")
        xcfg = xcfg.replace("Lens = {1, 2, 3, 4, 5, 8}", "Lens = {1, 3, 5}").replace("FewAnchors = FALSE", "FewAnchors = TRUE")
        sgens.append(bg("CmapGen exhaustive (<= 2 blocks, gaps {0,1,5}, lens {1,3,5}, anchors 0, 0xFFFF, BMP edge)", "CmapGen", cfg="CmapGenX.cfg",
                        files={"CmapGenX.cfg": xcfg}, workers=max(2, W // 2), timeout=1500))

    # ---- 2b. object model: all call histories; selection with ties
    nops = ctx.pick(2, 3)
    hgen = bg("CmapHist: every history of %d calls, results retained (ResultsStable)" % nops, "CmapHist", cfg="CmapHistN.cfg",
              files={"CmapHistN.cfg": _cfg("CmapHist.cfg").replace("MaxOps = 2", "MaxOps = %d" % nops)},
              workers=max(2, W // 4), timeout=1500)
    hreuse = bg("CmapHist with a re-used scratch buffer (must fail)", "CmapHist", cfg="CmapHistReuse.cfg", workers=1, timeout=600)
    nkeys = ctx.pick(3, 4)
    sgen = bg("CmapSel: every insertion order of 2..%d keys of the pool, DirFirst = first record of the directory" % nkeys,
              "CmapSel", cfg="CmapSelN.cfg",
              files={"CmapSelN.cfg": _cfg("CmapSel.cfg").replace("MaxKeys = 3", "MaxKeys = %d" % nkeys)},
              workers=max(2, W // 4), timeout=1500)

    binp = ctx.build("c09")
    d = ctx.subdir("c09")
    cases_by_id = {}
    failures = {}
    nid = [0]

    def number(cases, kind, full_every, ximg_every):
        for c in cases:
            if kind in ("struct", "size"):
                c.setdefault("dom", 1)
                c.setdefault("tight", 0)
            if thorough and kind == "struct" and nid[0] % 4 != 0 and not c.get("mac"):
                c["t6"] = []         # the format-6 decode is exercised on a quarter of the structures
            c["id"] = nid[0]
            c["kind"] = kind
            c["full"] = (nid[0] % full_every == 0)
            c["ximg"] = (nid[0] % ximg_every == 0)
            cases_by_id[nid[0]] = c
            nid[0] += 1
        return cases

    def drive(mode, cases, tag, chunk):
        cpath = os.path.join(d, tag + ".cases")
        vlib.write_ndjson(cpath, cases)
        prefix = os.path.join(d, tag)
        _, out = ctx.run([binp, mode, cpath, prefix, str(chunk)], timeout=1500)
        info = json.loads(out.strip().splitlines()[-1])
        os.remove(cpath)
        return [prefix + "-%04d.ndjson" % i for i in range(info["files"])]

    def forget(cases):
        keep = set(g["cid"] for g in failures.values()) | set(a for g in failures.values() for a in g["alt"])
        for c in cases:
            if c["id"] not in keep:
                cases_by_id.pop(c["id"], None)

    # ---- 3. V: seeded big maps (started first: their validation is the longest)
    nrand = ctx.pick(18, 72)
    rprefix = os.path.join(d, "rnd")
    _, out = ctx.run([binp, "random", str(nrand), rprefix, "3" if thorough else "6"], timeout=1500)
    info = json.loads(out.strip().splitlines()[-1])
    rcases = vlib.read_ndjson(rprefix + ".cases")
    for c in rcases:
        cases_by_id[c["id"]] = c
    ctx.sample({"big_map": {"fmt": rcases[0]["fmt"], "class": rcases[0]["class"], "entries": len(rcases[0]["ic"])}})
    rfiles = [rprefix + "-%04d.ndjson" % i for i in range(info["files"])]

    # ---- tables
    tall = []
    for label, fut in tgens:
        tg = fut.result()
        _account(ctx, tg, label)
        if tg.violated or tg.rc != 0:
            raise vlib.Infra("CmapTableGen violates %s on the model:\n%s" % (tg.violated, tg.error_text[:1500]))
        tall += tg.cases
    if len(tall) < 500:
        raise vlib.Infra("CmapTableGen produced only %d cases" % len(tall))
    tcases = number(tall, "table", 1, 1)
    ntab = len(set(json.dumps([c["keys"], c["order"]]) for c in tcases))
    ctx.sample({"table_case": {k: tcases[len(tcases) // 2][k] for k in ("keys", "order", "best")}})
    tfiles = drive("tables", tcases, "tab", 800)

    # ---- raw subtable bodies at the directory level; size families at the 16-bit boundary
    label, fut = rgen
    rg = fut.result()
    _account(ctx, rg, label)
    if rg.violated or rg.rc != 0:
        raise vlib.Infra("CmapRawGen violates %s on the model:\n%s" % (rg.violated, rg.error_text[:1500]))
    if len(rg.cases) < 400:
        raise vlib.Infra("CmapRawGen produced only %d cases" % len(rg.cases))
    rawcases = number(rg.cases, "rawtable", 1, 1)
    nraw = len(set(json.dumps([c["keys"], [s[:8] for s in c["subs"]], c["order"]]) for c in rawcases))
    nodd = sum(1 for c in rawcases if any(len(s) % 2 for s in c["subs"][:-1]))
    if nodd < 50:
        raise vlib.Infra("only %d raw tables have an odd-length body in front of another one" % nodd)
    ctx.sample({"raw_table_case": {"keys": rawcases[3]["keys"], "body_lengths": [len(s) for s in rawcases[3]["subs"]],
                                   "formats": [s[1] for s in rawcases[3]["subs"]]}})
    tfiles += drive("tables", rawcases, "raw", 1500)

    label, fut = zgen
    zg = fut.result()
    _account(ctx, zg, label)
    if zg.violated or zg.rc != 0:
        raise vlib.Infra("CmapSizeGen violates %s on the model:\n%s" % (zg.violated, zg.error_text[:1500]))
    zcases = zg.cases
    if sum(1 for c in zcases if c["dom"] == 1 and c["tight"] > 65400) < 5:
        raise vlib.Infra("CmapSizeGen produced too few near-limit maps")
    for c in zcases:
        c["fmt"], c["lang"] = 4, 0
    zcases = number(zcases, "size", 1, 1)
    for c in zcases:
        c["kind"] = "struct"          # executed like a structure: Encode, library decode, x/image, complete sweep
    ctx.sample({"size_case": {k: zcases[0][k] for k in ("family", "p", "n", "tight", "dom")}})
    zfiles = drive("structs", zcases, "size", 2)

    # ---- structures
    scases = []
    for label, fut in sgens:
        g = fut.result()
        _account(ctx, g, label)
        if g.violated or g.rc != 0:
            raise vlib.Infra("CmapGen violates %s on the model:\n%s" % (g.violated, g.error_text[:1500]))
        scases += g.cases
    if len(scases) < nsim // 2:
        raise vlib.Infra("CmapGen produced only %d structures" % len(scases))
    full_every, ximg_every = (64, 32) if thorough else (16, 8)
    scases = number(scases, "struct", full_every, ximg_every)
    nstruct = len(set(json.dumps([c["fmt"], c["amode"], c["anchor"], c["blocks"], c["var"], c["lang"]]) for c in scases))
    ctx.sample({"structure_case": {k: scases[1][k] for k in ("fmt", "amode", "anchor", "blocks", "lang", "var", "ic", "ig")}})

    # ---- histories and selection: executed in one goroutine each, selection in several fresh processes
    label, fut = hgen
    hg = fut.result()
    _account(ctx, hg, label)
    if hg.violated or hg.rc != 0:
        raise vlib.Infra("CmapHist violates %s on the model:\n%s" % (hg.violated, hg.error_text[:1500]))
    fixed = [c for c in hg.cases if c.get("kind") == "fixed"]
    hcases = [c for c in hg.cases if c.get("kind") == "hist"]
    if len(fixed) != 1 or len(hcases) < 400:
        raise vlib.Infra("CmapHist printed %d fixed records and %d histories" % (len(fixed), len(hcases)))
    fx = {k: v for k, v in fixed[0].items() if k != "kind"}
    for c in hcases:
        c["fx"] = fx
    hcases = number(hcases, "hist", 1, 1)
    ctx.sample({"history_case": hcases[len(hcases) // 3]["ops"]})
    # every history runs sequentially in one goroutine; the set is split over a few processes
    nslice = ctx.pick(2, 8)
    hfiles = []

    def run_hist(si):
        hp = os.path.join(d, "hist%d.cases" % si)
        vlib.write_ndjson(hp, hcases[si::nslice])
        hf = os.path.join(d, "hist-%04d.ndjson" % si)
        ctx.run([binp, "hist", hp, hf], timeout=1200)
        os.remove(hp)
        return hf
    with ThreadPoolExecutor(max_workers=nslice) as ex:
        hfiles = list(ex.map(run_hist, range(nslice)))

    label, fut = sgen
    sg = fut.result()
    _account(ctx, sg, label)
    if sg.violated or sg.rc != 0:
        raise vlib.Infra("CmapSel violates %s on the model:\n%s" % (sg.violated, sg.error_text[:1500]))
    if len(sg.cases) < 200:
        raise vlib.Infra("CmapSel printed only %d cases" % len(sg.cases))
    selcases = number(sg.cases, "sel", 1, 1)
    ctx.sample({"selection_case": selcases[len(selcases) // 2]["keys"]})
    spath = os.path.join(d, "sel.cases")
    vlib.write_ndjson(spath, selcases)
    nproc = ctx.pick(4, 12)
    merged = None
    for pi in range(nproc):                      # fresh processes: the map iteration order differs per process
        sp = os.path.join(d, "sel-p%d.ndjson" % pi)
        ctx.run([binp, "select", spath, sp], timeout=900)
        evs = vlib.read_ndjson(sp)
        os.remove(sp)
        merged = evs if merged is None else [_merge_sel(a, b) for a, b in zip(merged, evs)]
    os.remove(spath)
    sfile = os.path.join(d, "sel-0000.ndjson")
    vlib.write_ndjson(sfile, merged)
    nselcalls = sum(m["calls"] * m["procs"] * (len(m["gets"]) + len(m["nolang"]) + 1) * 2 for m in merged)

    # ---- 4. TLC judges every recorded event
    label, fut = hreuse
    r = fut.result()
    _account(ctx, r, label)
    if r.violated != "ResultsStable":
        raise vlib.Infra("CmapHist with a re-used scratch buffer did not violate ResultsStable (%s): the model is vacuous"
                         % r.violated)
    step = 20000
    first = scases[:step]
    stfiles = drive("structs", first, "st0", ctx.pick(1200, 3000))
    # big files first so that the pool stays busy
    _validate_files(ctx, rfiles + zfiles + tfiles + stfiles + hfiles + [sfile], failures, heap="6g",
                    par=max(2, min(12, (ctx.workers * 3) // 4)))
    ctx.cov["traces_validated_against_impl"] += (len(rcases) + len(tcases) + len(rawcases) + len(zcases) + len(first)
                                                 + len(hcases) + len(selcases) * nproc)
    for cs in (tcases, rawcases, zcases, first, hcases, selcases):
        forget(cs)
    for a in range(step, len(scases), step):
        part = scases[a:a + step]
        files = drive("structs", part, "st%d" % (a // step), ctx.pick(1200, 3000))
        _validate_files(ctx, files, failures)
        ctx.cov["traces_validated_against_impl"] += len(part)
        forget(part)

    # ---- collect the model-checking runs
    for label, fut in mc:
        r = fut.result()
        _account(ctx, r, label)
        if not r.ok:
            raise vlib.Infra("CmapMC (%s) violates %s on the model -- the spec is wrong, not the code:\n%s"
                             % (label, r.violated, r.error_text[:1500]))
    label, fut = witness
    r = fut.result()
    _account(ctx, r, label)
    if r.violated != "BodyWitness":
        raise vlib.Infra("CmapMC: the non-vacuity witness was not found (%s)" % r.violated)
    pool.shutdown()
    ctx.cov["exhaustive"] = True
    ctx.cov["bounds"] = {"model_MaxCode": maxcode, "model_bodies": "segCount<=2, glyphIdArray<=%d, all word values" % ga,
                         "table_pool": "7 keys x (absent | 3 contents) x 2 storage orders, sampled"
                                       + ("; all 4374 configurations with 2 contents" if thorough else ""),
                         "structures": "blocks (gap in {0..6,200}, len in {1,2,3,4,5,8}, 6 kinds, 2 bases), <= 4 blocks, "
                                       "9 anchors, 3 languages, 6+2 spec-encoded variants"}
    ctx.cov["bounds"]["histories"] = "all %d-call histories over 22 (call, argument shape) pairs" % nops
    ctx.cov["bounds"]["selection"] = ("every insertion order of 2..%d keys of a 7-key pool (3+2 Macintosh languages); %d calls "
                                      "per site and table in each of %d fresh processes (%d selection calls)"
                                      % (nkeys, 64, nproc, nselcalls))
    ctx.cov["bounds"]["raw_tables"] = ("4 keys x (absent | 12 raw bodies: formats 0,2,4,6,8,10,12,13,14, odd and even lengths) x 2 "
                                       "storage orders, sampled: %d tables, %d with an odd body in front of another" % (nraw, nodd))
    ctx.cov["bounds"]["size_families"] = ("pairs {c,c+d} d=3,4,5; singletons 5/8 apart; permuted runs of 6/8: largest n with a "
                                          "65535-byte encoding%s, and the next n beyond" % (" and 1, 2, 40 below" if thorough else ""))
    ctx.cov["distinct_nontrivial"] = ntab + nstruct + len(rcases) + len(hcases) + len(selcases) + nraw + len(zcases)
    ctx.cov["rule"] = ("distinct (key set, sharing pattern, storage order) table cases + distinct (format, anchor, block "
                       "sequence, language, spec-encoded variant) structures generated by TLC + seeded big maps + call histories + (key sequence) selection cases; "
                       "evaluations = recorded events judged by TLC with CmapTrace.tla")
    if failures:
        ctx.notes.append("failing classes before replay: " + "; ".join(
            "%s/%s fmt=%s x%d" % (k[0], k[1], k[2], v["count"]) for k, v in sorted(failures.items(), key=str)))
    _report(ctx, failures, cases_by_id)


def replay(ctx, obj):
    case = obj["case"]
    sig = obj.get("sig", {})
    got = _replay_case(ctx, case)
    ctx.cov["traces_validated_against_impl"] += 1
    for ev, cl, e in got:
        if cl == "specwf":
            raise vlib.Infra("ill-formed specification table in replay")
        s = {"event": ev, "clause": cl, "fmt": _efmt(e)}
        if ev == "dec" and e.get("var"):
            s["variants"] = e["var"]
        if sig and (s["event"], s["clause"], s["fmt"]) != (sig.get("event"), sig.get("clause"), sig.get("fmt")):
            continue
        ctx.violation("cmap: %s [event %s, clause %s]: %s" % (
            _EXPLAIN.get((ev, cl), "clause rejected by CmapTrace.tla"), ev, cl, _short(e)), sig=s, case=case)
