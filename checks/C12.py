"""C12 -- metrics/header tables round-trip exactly; derived fields match their definitions.

1. TLC, exhaustive: Metrics.tla (reference encoder/decoder of hhea+hmtx, head, maxp, OS/2, post on
   the definitions of MetricsDefs.tla) satisfies RoundTrip, JudgeAccepts, NumLongLaw, RunLaw and the
   constant laws BitsInjective / TimeLaw on all small glyph vectors, width vectors, run-length
   descriptors, flag subsets, times, angles and maxima.
2. R: the same state machine with Gen = TRUE prints every case; harness/cmd/c12 builds the Info value,
   calls the library's Encode, walks the emitted bytes as raw words, calls Decode/Read and records one
   event per case.
3. V: seeded whole fonts (harness/internal/fonts + variations of units per em, width pattern, font
   matrix placement, italic angle): query methods, Font.Write, the tables of the file walked as words,
   golang.org/x/image/font/sfnt as a second reader, Read and the same again.
Every event is judged by TLC against MetricsTrace.tla (named checks per event).  A rejected event is
re-recorded in isolation and re-validated before it counts; then validation continues behind it.
"""
import json
import os

import vlib

LEVEL = "model_checking"
MANIFEST = {
    "text": "TLC exhaustively checks Metrics.tla, a reference encoder/decoder of hhea+hmtx, head, maxp, OS/2 and post "
            "written from the OpenType chapters (numberOfHMetrics rule, hhea aggregates ignoring empty glyphs, bit "
            "layouts, 1904 epoch, caret slope as a rational), for round trip and for agreement with the judge predicates; "
            "the cases it enumerates (all glyph/width vectors with every tail length up to the bound, run-length vectors "
            "up to 65535 glyphs, all flag subsets, signed extremes, times, angles, caret (rise, run) pairs) are replayed "
            "into the library's Encode/Decode and the emitted bytes, walked as raw 16-bit words, plus the decoded values "
            "are judged by TLC against MetricsTrace.tla; seeded whole fonts are written and the derived fields inside the "
            "file (advanceWidthMax, min side bearings, xMaxExtent, FontBBox, xAvgCharWidth, first/last char) and the "
            "font's query methods (Widths, WidthsPDF, GlyphWidthPDF, GlyphBBox(PDF), FontBBox(PDF), IsFixedPitch) are "
            "judged against the outlines by the same trace specification; golang.org/x/image/font/sfnt reads the same "
            "files as a second observation stream.",
    "note": "Trusted: TLC, the word/directory/glyf walkers and float-to-micro-unit rounding of the harness, atan2 for "
            "turning a (rise, run) pair into the caret angle the API takes. Not demanded (the property does not list "
            "them): minimal numberOfHMetrics, xHeight/capHeight, win ascent/descent, weight/width class, reserved bits, "
            "rounding of xAvgCharWidth, fixed-pitch answer when only zero-width glyphs differ. Unset timestamps and the "
            "exact 1904 epoch second are outside the domain; advance widths are 0..32767 (the library's type).",
    "technique": "TLA+ model checking (TLC) of Metrics.tla + replay of TLC-enumerated cases into the real encoders/decoders "
                 "and trace validation of the recorded raw tables and query results against MetricsTrace.tla",
}

MAX_REJECTIONS_PER_CLASS = 3

# Ruled NOT findings (coordinator, round 4) -- the clauses were narrowed instead of the library being changed:
#  * Font.Write with CONTRADICTORY style inputs (IsRegular together with IsBold or a non-zero ItalicAngle; IsItalic differing
#    from "angle != 0"): head.macStyle and OS/2.fsSelection then resolve the contradiction differently.  C12 states that each
#    table's bits survive encode/decode, not how Write resolves contradictory input; the cross-table style clauses are judged
#    for consistent inputs only, contradictory ones only on table-level round trips and on stability of what Read reports.
#    (A change of makeHead to take the italic bit from f.IsItalic shows only on contradictory input: not a C12 violation.)
#  * post.isFixedPitch is computed from float widths with a half-unit tolerance while hmtx stores truncated integers
#    (603.0/602.6 -> 603/602 under "fixed"; 600/600.4/600.8 -> 600/600/600 under "proportional").  post.isFixedPitch is not a
#    derived field of C12 and precision loss may change it; it is compared with hmtx only for integer-width fonts, and is part
#    of the second-cycle law only when the first font had integer widths.  The QUERY Font.IsFixedPitch() stays judged.

CFG = """CONSTANTS
  Gen = %(gen)s
  MaxG = %(maxg)d
  MaxW = %(maxw)d
  MaxRuns = %(maxruns)d
  BigRuns = %(big)s
  CaretR = %(caret)d
SPECIFICATION Spec
INVARIANT TypeOK
INVARIANT RoundTrip
INVARIANT JudgeAccepts
%(extra)s
CHECK_DEADLOCK FALSE
"""


def _cfg(gen, maxg, maxw, maxruns, big, caret):
    extra = "INVARIANT Emit" if gen else "INVARIANT NumLongLaw\nINVARIANT RunLaw"
    return CFG % {"gen": "TRUE" if gen else "FALSE", "maxg": maxg, "maxw": maxw, "maxruns": maxruns,
                  "big": "TRUE" if big else "FALSE", "caret": caret, "extra": extra}


def _class_of(e):
    """Grouping of events (for separate validation runs and for the violation signature only)."""
    k = e.get("ev")
    if k == "hmtx":
        i = e["in"]
        if i["mode"] == "given" and any(b != [0, 0, 0, 0] and l != b[0] for l, b in zip(i["lsb"], i["box"])):
            return "hmtx:lsb-differs-from-xmin"
        return "hmtx:" + i["mode"]
    if k == "font":
        return "font:%s:%s" % (e.get("fkind"), e.get("matrix"))
    return str(k)


def _failed_checks(res):
    for line in res.prints:
        if line.startswith('<<"FAILED_CHECKS", '):
            body = line[len('<<"FAILED_CHECKS", '):]
            if body.endswith(">>"):
                body = body[:-2]
            try:
                return sorted(json.loads(json.loads(body)))
            except Exception:
                return ["?"]
    return ["?"]


def _summary(e):
    small = {}
    for k, v in e.items():
        s = json.dumps(v)
        small[k] = v if len(s) <= 160 else (s[:150] + "...")
    return json.dumps(small)[:1400]


REPLAY_ATTEMPTS = 8


def _replay_case(ctx, case, cls=None, first=None, first_failed=None):
    """Re-record one case alone and validate it alone; report every event that is rejected again.

    Some defects depend on Go's map iteration order: the case is re-recorded up to REPLAY_ATTEMPTS times and
    any attempt that is rejected counts.  If the originally rejected event (first) is never rejected again,
    identical calls have produced different results: that is reported as a violation of determinism with both
    observations."""
    binp = ctx.build("c12")
    d = ctx.subdir("replay")
    cp = os.path.join(d, "case.json")
    json.dump(case, open(cp, "w"))
    reproduced = []
    events = []
    for attempt in range(REPLAY_ATTEMPTS):
        tp = os.path.join(d, "trace%d.ndjson" % attempt)
        ctx.run([binp, "one", cp, tp], timeout=300)
        events = vlib.read_ndjson(tp)
        pos = 0
        while pos < len(events):
            part = os.path.join(d, "part%d-%d.ndjson" % (attempt, pos))
            vlib.write_ndjson(part, events[pos:])
            ok, line, res = ctx.validate_trace("MetricsTrace", part, label="replay of one case (attempt %d)" % (attempt + 1),
                                               traces=0, timeout=600)
            if ok:
                break
            if line is None:
                raise vlib.Infra("replay validation failed without a rejected line:\n" + res.error_text[-2000:])
            bad = events[pos + line - 1]
            failed = _failed_checks(res)
            c = cls or _class_of(bad)
            if bad.get("ev") == "font":
                c = _class_of(bad)
            what = ("%s event (class %s%s) is not accepted by MetricsTrace.tla; failed checks: %s%s; event: %s" % (
                bad.get("ev"), c, (", stage " + bad["stage"]) if "stage" in bad else "", ", ".join(failed),
                (" (attempt %d of the replay: the result depends on the run)" % (attempt + 1)) if attempt else "",
                _summary(bad)))
            ctx.violation(what, sig={"ev": bad.get("ev"), "class": c, "failed": ",".join(failed)}, case=case)
            reproduced.append((c, ",".join(failed)))
            pos += line
        if reproduced:
            return reproduced
    if first is not None:
        # never rejected again: identical calls, different results
        same_stage = [e for e in events if e.get("stage") == first.get("stage")] or events
        diff = {}
        for k in first:
            if same_stage and first.get(k) != same_stage[0].get(k):
                diff[k] = [first.get(k), same_stage[0].get(k)]
        c = cls or _class_of(first)
        what = ("nondeterministic result: a %s event (class %s) was rejected by MetricsTrace.tla (failed checks: %s) but %d "
                "identical re-recordings of the same case were accepted; differing fields [rejected, accepted]: %s" % (
                    first.get("ev"), c, first_failed, REPLAY_ATTEMPTS, json.dumps(diff)[:1200]))
        ctx.violation(what, sig={"ev": first.get("ev"), "class": c, "failed": "nondeterministic:" + str(first_failed)},
                      case=case)
        reproduced.append((c, "nondeterministic:" + str(first_failed)))
    return reproduced


def _survey(ctx, d, cls, dropped, cases, reported, seen_cases):
    """Events of a class that already produced the maximum number of reported rejections: one TLC run in
    survey mode prints the failed checks of every event; a combination not yet reported for the class is
    replayed strictly (and reported); the others are the same finding again."""
    part = os.path.join(d, "survey.ndjson")
    vlib.write_ndjson(part, [e for _, _, e in dropped])
    ok, line, res = ctx.validate_trace("MetricsTrace", part, cfg="MetricsSurvey.cfg", traces=0, timeout=1800,
                                       label="survey of class %s (%d events)" % (cls, len(dropped)))
    os.remove(part)
    if not ok:
        raise vlib.Infra("survey run did not consume the trace (line %r):\n%s" % (line, res.error_text[-1500:]))
    failing = {}
    for pl in res.prints:
        if not pl.startswith('<<"FAILED_AT", '):
            continue
        body = pl[len('<<"FAILED_AT", '):-2]
        ln, _, js = body.partition(", ")
        failing[int(ln)] = ",".join(sorted(json.loads(json.loads(js))))
    ctx.cov["evaluations"] += len(dropped)
    ctx.cov["traces_validated_against_impl"] += len(dropped) - len(failing)
    same = 0
    new = 0
    for ln in sorted(failing):
        si, _, bad = dropped[ln - 1]
        if (cls, failing[ln]) in reported and bad.get("ev") != "panic":
            same += 1
            continue
        key = (si, bad.get("case"))
        if key in seen_cases or new >= 5:
            continue
        seen_cases.add(key)
        new += 1
        sigs = _replay_case(ctx, cases[key], cls, first=bad, first_failed=failing[ln])
        reported.update(sigs)
    ctx.notes.append("class %s: %d further events surveyed, %d show an already reported combination of failed checks, "
                     "%d accepted, %d new combinations replayed" % (cls, len(dropped), same, len(dropped) - len(failing), new))


def _validate_all(ctx, sources, label):
    """sources: list of (trace_path, cases_path).  All events are validated in one TLC run; behind a
    rejected (and reproduced) event validation continues; a class of events with MAX rejections is
    dropped from the rest (and that is noted)."""
    remaining = []
    cases = {}
    for si, (tp, cp) in enumerate(sources):
        for e in vlib.read_ndjson(tp):
            remaining.append((si, _class_of(e), e))
        for c in vlib.read_ndjson(cp):
            cases[(si, c["id"])] = c
    remaining.sort(key=lambda x: (x[1], x[0]))          # classes contiguous, recorded order inside
    classes = {}
    for _, cls, _e in remaining:
        classes[cls] = classes.get(cls, 0) + 1
    total = len(remaining)
    d = ctx.subdir("validate")
    rejections = {}
    reported = set()
    seen_cases = set()
    maxrej = ctx.pick(1, MAX_REJECTIONS_PER_CLASS)
    rnd = 0
    while remaining:
        rnd += 1
        part = os.path.join(d, "part%d.ndjson" % rnd)
        vlib.write_ndjson(part, [e for _, _, e in remaining])
        ok, line, res = ctx.validate_trace("MetricsTrace", part, label="%s (round %d, %d events)" % (label, rnd, len(remaining)),
                                           traces=0, timeout=1800)
        os.remove(part)
        if ok:
            ctx.cov["evaluations"] += len(remaining)
            ctx.cov["traces_validated_against_impl"] += len(remaining)
            break
        if line is None:
            raise vlib.Infra("trace validation failed without a rejected line:\n" + res.error_text[-2000:])
        ctx.cov["evaluations"] += line
        ctx.cov["traces_validated_against_impl"] += line - 1
        si, cls, bad = remaining[line - 1]
        remaining = remaining[line:]
        rejections[cls] = rejections.get(cls, 0) + 1
        key = (si, bad.get("case"))
        if key not in seen_cases:
            seen_cases.add(key)
            case = cases.get(key)
            if case is None:
                raise vlib.Infra("rejected event has no case (class %s, case %r)" % (cls, key))
            sigs = _replay_case(ctx, case, cls, first=bad, first_failed=",".join(_failed_checks(res)))
            reported.update(sigs)
        if rejections[cls] >= maxrej:
            dropped = [x for x in remaining if x[1] == cls]
            remaining = [x for x in remaining if x[1] != cls]
            if dropped:
                _survey(ctx, d, cls, dropped, cases, reported, seen_cases)
    return total, classes


def run(ctx):
    ctx.assumptions += [
        "advance widths are 0..32767 (funit.Int16 in the library, UFWORD in the file); bearings and boxes are any int16",
        "an unset (zero) time.Time and the 1904 epoch second itself are outside the timestamp domain",
        "OS/2 style flags are compared exactly only when consistent (REGULAR excludes BOLD and ITALIC, OpenType fsSelection)",
        "caret angles enter through the (rise, run) pair they were built from (atan2 of the harness is trusted)",
        "query methods are logged in integer micro units (rounded by the harness) and compared within one unit",
        "whole fonts: coordinates and widths of the constructed fonts are at most a few thousand units (32-bit TLC arithmetic)",
    ]
    q = ctx.quick()
    # 1. the design: exhaustive model checking of the reference encoder/decoder and its laws
    mc = dict(gen=False, maxg=3 if q else 4, maxw=5 if q else 7, maxruns=3, big=False, caret=3 if q else 6)
    res = ctx.tlc("Metrics", cfg="MetricsMC.cfg", files={"MetricsMC.cfg": _cfg(**mc)}, timeout=1200,
                  coverage=not q, label="Metrics exhaustive (laws)")
    if not res.ok:
        raise vlib.Infra("Metrics.tla violates %s on the model -- the spec is wrong, not the code:\n%s"
                         % (res.violated, res.error_text[:1500]))
    if res.coverage_zero:
        raise vlib.Infra("vacuous actions in Metrics.tla (never taken): %s" % res.coverage_zero)
    ctx.cov["exhaustive"] = True
    ctx.cov["bounds"] = {"model": mc, "alphabets": "GlyphChoices (8 glyphs), WAlpha {0,500,32767}, RunVals x RunCounts, "
                         "all 2^8 head flag subsets x 3, all 2^6 OS/2 style/permission flag subsets x 4 usages, 69 code page sets"}

    # 2. R: cases enumerated by TLC, replayed into the real encoders / decoders
    gc = dict(gen=True, maxg=3 if q else 4, maxw=6 if q else 9, maxruns=2 if q else 3, big=True, caret=10 if q else 50)
    gen = ctx.tlc("Metrics", cfg="MetricsG.cfg", files={"MetricsG.cfg": _cfg(**gc)}, timeout=1500,
                  label="Metrics case generation (exhaustive, Gen)")
    if gen.violated:
        raise vlib.Infra("generation run violated " + gen.violated)
    if len(gen.cases) < 1000:
        raise vlib.Infra("generation produced only %d cases" % len(gen.cases))
    ctx.cov["bounds"]["generation"] = gc
    binp = ctx.build("c12")
    d = ctx.subdir("c12")
    cpath = os.path.join(d, "tlc-cases.ndjson")
    vlib.write_ndjson(cpath, gen.cases)
    distinct = len(set(json.dumps(c, sort_keys=True) for c in gen.cases))
    t1 = os.path.join(d, "tables.ndjson")
    ctx.run([binp, "tables", cpath, t1], timeout=1500)
    for want in ("hmtx", "runs", "head", "os2", "post", "maxp"):
        for c in gen.cases:
            if c.get("kind") == want:
                ctx.sample({"tlc_case": c}, limit=6)
                break
    n1 = sum(1 for _ in open(t1))
    if n1 != len(gen.cases):
        raise vlib.Infra("harness recorded %d events for %d cases" % (n1, len(gen.cases)))

    # 3. V: whole fonts
    nfonts = ctx.pick(100, 1200)
    t2 = os.path.join(d, "fonts.ndjson")
    ctx.run([binp, "fonts", str(nfonts), t2], timeout=1500)
    for e in vlib.read_ndjson(t2)[:1]:
        ctx.sample({"font_event": {k: v for k, v in e.items() if len(json.dumps(v)) < 120}})
    total, classes = _validate_all(ctx, [(t1, t1 + ".cases"), (t2, t2 + ".cases")], "MetricsTrace")
    ctx.cov["bounds"]["event_classes"] = classes
    ctx.cov["distinct_nontrivial"] = distinct + nfonts
    ctx.cov["rule"] = ("distinct TLC-enumerated table cases (Info values of hmtx/hhea, head, maxp, OS/2, post) plus seeded "
                       "whole fonts; evaluations = recorded events (one per table case, two per font) judged by TLC")


def replay(ctx, obj):
    _replay_case(ctx, obj["case"])
