"""C13 -- CFF structures and numbers survive write/read (simple and CID-keyed fonts).

1. TLC, exhaustive: CFFLayout.tla, the offset fixed-point loop of the CFF writer (sections whose size
   depends on the offsets stored in them: DICT integer size classes, INDEX offSize).  For every vector
   of section sizes that puts the stored offsets next to a size-class boundary, for simple layouts
   (with / without custom encoding) and CID-keyed layouts with 1..3 font DICTs: the loop terminates,
   offsets never decrease, and at exit every stored offset / size equals the real position / size,
   the end of the file included; the header offSize fits.  The ASSUMEs of that module test the
   TN5176 operators of CFFLayoutOps.tla on the examples of the specification.
2. R: CFFLayoutGen.tla enumerates structure descriptors and expands each into an abstract font
   ("ofat": every value of every dimension, exhaustive; "shapes": every shape of a nibble-coded real --
   sign x 1..9 digits x position of the decimal point -- in every float-typed DICT field, exhaustive; "sweep": Notice padded so that every stored
   offset crosses 108 / 1132 / 32768 / 65536, pads aimed with a measured probe; "rand": -simulate over
   the full product; thorough: "big" fonts up to 65535 glyphs).
3. The harness builds the cff.Font, calls Write, walks the bytes with an independent reader
   (harness/internal/cffwalk) and reads them back with cff.Read; CFFLayoutTrace.tla (TLC) decodes the raw
   bytes with the TN5176 operators and compares both the raw decoding and the cff.Read projection with
   the abstract font.  A rejected case is re-recorded alone and re-validated before it is reported.
"""
import collections
import json
import os
import re
import threading
from concurrent.futures import ThreadPoolExecutor

import vlib

LEVEL = "model_checking"
MANIFEST = {
    "text": "TLC exhaustively checks CFFLayout.tla (the writer's offset fixed-point loop: termination, monotone "
            "offsets, every stored offset/size equals the real one at exit, header offSize fits) over all section-size "
            "vectors that put stored offsets next to the DICT-integer size-class boundaries and the 64 KiB mark, for "
            "simple and CID-keyed layouts with 1-3 font DICTs. TLC then enumerates structure descriptors of fonts "
            "(glyph-name/CID run structures, FDSelect patterns, the upper end and the value below it of every count field: "
            "255/256 private dictionaries with FDSelect formats 3 and 0, 65534/65535 glyphs, CID 65535, 254-256 encoded "
            "codes, 255 supplements, every settable DICT scalar over every operator's default value +-1 (table of "
            "defaults of TN5176), empty INDEX elements (FontName, glyph name, Registry/Ordering), harness-assembled files "
            "with predefined charsets 0/1/2 and encodings 0/1 at 1, 2, len-1, len glyphs, width minus nominalWidthX at "
            "+-32767..32769, +-1131/1132, +-107/108, encodings incl. supplements and predefined ones, "
            "integer/fractional width patterns, DICT integers at every size class, reals with 1-9 digits and exponents "
            "to +-290, every shape of a DICT real (sign x 1-9 significant digits x decimal-point position from 0.0000ddd "
            "to ddd0000 and exponent forms) in every float-typed field (FontMatrix, FD FontMatrix, StdHW, StdVW, BlueScale, "
            "ItalicAngle, UnderlinePosition/Thickness), Notice paddings that move every stored offset across each boundary) and expands them to "
            "abstract fonts; the real cff.Font.Write output is walked by an independent CFF reader and read back by "
            "cff.Read, and TLC (CFFLayoutTrace.tla, operators written from TN5176/TN5177) decides whether the raw "
            "bytes decode to the abstract font and whether cff.Read's projection equals it (reals to 9 digits, "
            "widths to 16.16). Format/offSize/operand-form choices are not constrained.",
    "note": "Trusted: TLC, the independent walker (it only locates sections; all decoding is done by TLA+ "
            "operators), strconv for float64 <-> 9-digit decimals, the transcription of the TN5176 appendices "
            "(cross-checked once against the library's tables). Not covered: FontMatrix/BlueScale within the "
            "writer's documented tolerance of the default (1e-5 / 1e-6), values of reals outside 1e-290..1e290 (for "
            "those only termination and success of Write/Read are judged; a call is a failure after 8 s), ItalicAngle "
            "below 1e-3, BlueValues deltas beyond int16, glyph outlines (C04/C05), strings other than printable ASCII; "
            "DICT operators the cff.Font API cannot set (PaintType, StrokeWidth, ExpansionFactor, LanguageGroup, CIDFont*).",
    "technique": "TLA+ model checking (TLC) of CFFLayout.tla + TLC-generated abstract fonts replayed into "
                 "cff.Font.Write/cff.Read, recorded bytes and projection validated by TLC against CFFLayoutTrace.tla",
}

THRESHOLDS = (108, 1132, 32768, 65536)
KINDS = {0: ("simple", 1), 1: ("cid", 1), 2: ("cid", 2), 3: ("cid", 3)}
_lock = threading.Lock()


# ----------------------------------------------------------------------------- generation
def _gen(ctx, mode, pads=(), bigns=(), simulate=None, label=None, timeout=600, seed=None):
    cfg = ("CONSTANTS\n  Mode = \"%s\"\n  Pads = {%s}\n  BigNs = {%s}\n  PermA = %d\n  PermB = %d\nINIT Init\nNEXT Next\n"
           "INVARIANT Emit\nCHECK_DEADLOCK FALSE\n"
           % (mode, ", ".join(str(p) for p in sorted(pads)), ", ".join(str(n) for n in sorted(bigns)),
              2 * ((ctx.seed * 7 + 3) % 60) + 3, (ctx.seed * 13) % 128))   # seeded permutation of codes
    res = ctx.tlc("CFFLayoutGen", cfg="CFFLayoutGenX.cfg", files={"CFFLayoutGenX.cfg": cfg}, workers=1,
                  simulate=simulate, depth=(14 if simulate else None), timeout=timeout, seed=seed,
                  label=label or ("CFFLayoutGen " + mode), heap=("12g" if bigns else None))
    if res.violated:
        raise vlib.Infra("CFFLayoutGen (%s) violates %s -- the generator is wrong:\n%s"
                         % (mode, res.violated, res.error_text[:1500]))
    return res.cases


class Pool:
    """Collects distinct abstract fonts and numbers them."""

    def __init__(self):
        self.seen = set()
        self.n = 0

    def add(self, cases):
        out = []
        for c in cases:
            key = json.dumps({k: v for k, v in c.items() if k not in ("desc", "id")}, sort_keys=True)
            if key in self.seen:
                continue
            self.seen.add(key)
            self.n += 1
            c["id"] = self.n
            out.append(c)
        return out


# ----------------------------------------------------------------------------- running / validating
def _record(ctx, binp, cases, d, name):
    cp = os.path.join(d, name + ".cases.ndjson")
    tp = os.path.join(d, name + ".trace.ndjson")
    vlib.write_ndjson(cp, cases)
    ctx.run([binp, "run", cp, tp], timeout=900)
    return tp




def _diag(ctx, trace, label):
    """Run the trace specification in diagnosis mode: {line: set(labels)}."""
    res = ctx.tlc("CFFLayoutTrace", cfg="CFFLayoutTraceDiag.cfg", trace_file=trace, timeout=1800,
                  label=label, count=False)
    if res.rc != 0 or res.violated or res.rejected_line is not None:
        raise vlib.Infra("diagnosis run of CFFLayoutTrace did not consume the trace (line %s):\n%s"
                         % (res.rejected_line, res.error_text[-2000:]))
    bad = {}
    for p in res.prints:
        p = p.strip()
        if p.startswith('<<"BAD", ') and p.endswith(">>"):
            o = json.loads(json.loads(p[len('<<"BAD", '):-2]))
            bad.setdefault(o["line"], set()).update(o["bad"])
    return bad


def _validate_chunk(ctx, binp, cases, d, name, stats):
    """Record and validate one chunk.  Returns [(case, labels)] for cases TLC does not accept."""
    tp = _record(ctx, binp, cases, d, name)
    with open(tp) as f:
        lines = f.readlines()
    stats.observe(lines)
    ok, line, res = ctx.validate_trace("CFFLayoutTrace", tp, label="CFFLayoutTrace " + name, traces=len(cases),
                                       timeout=1800)
    with _lock:
        ctx.cov["evaluations"] += len(lines)
    if ok:
        os.remove(tp)
        return []
    if line is None:
        raise vlib.Infra("trace validation failed without a rejected line:\n" + res.error_text[-2000:])
    bad = _diag(ctx, tp, "CFFLayoutTrace diagnosis " + name)
    if not bad:
        raise vlib.Infra("strict validation rejected line %d of %s but diagnosis found nothing" % (line, name))
    by_id = {c["id"]: c for c in cases}
    labels = collections.defaultdict(set)
    for ln, labs in bad.items():
        ev = json.loads(lines[ln - 1])
        labels[ev["case"]].update(labs)
    # the rest of the chunk must be accepted as it stands
    rest = [ln for ln in lines if _case_of(ln) not in labels]
    rp = os.path.join(d, name + ".rest.ndjson")
    with open(rp, "w") as f:
        f.writelines(rest)
    ok2, line2, res2 = ctx.validate_trace("CFFLayoutTrace", rp, label="CFFLayoutTrace %s (accepted rest)" % name,
                                          traces=len(cases) - len(labels), timeout=1800)
    if not ok2:
        raise vlib.Infra("strict and diagnosis runs of CFFLayoutTrace disagree on %s (line %s)" % (name, line2))
    os.remove(tp)
    os.remove(rp)
    return [(by_id[cid], labs) for cid, labs in labels.items()]


_re_case = re.compile(r'"case":(\d+)')


def _case_of(line):
    m = _re_case.search(line)
    return int(m.group(1)) if m else None


def _width_operand(head):
    """Evidence only: the leading width operand of a charstring head (bytes up to the first operator), if the
    head is <width> endchar / <width> dx dy rmoveto / <width> d h|vmoveto, or <a> <b> add ... (sum of two)."""
    vals, i = [], 0
    while i < len(head):
        b = head[i]
        if b == 28 and i + 2 < len(head):
            v = (head[i + 1] << 8) | head[i + 2]
            vals.append(v - 65536 if v >= 32768 else v)
            i += 3
        elif b == 255 and i + 4 < len(head):
            v = (head[i + 1] << 24) | (head[i + 2] << 16) | (head[i + 3] << 8) | head[i + 4]
            vals.append((v - (1 << 32) if v >= 1 << 31 else v) / 65536)
            i += 5
        elif 32 <= b <= 246:
            vals.append(b - 139)
            i += 1
        elif 247 <= b <= 250 and i + 1 < len(head):
            vals.append((b - 247) * 256 + head[i + 1] + 108)
            i += 2
        elif 251 <= b <= 254 and i + 1 < len(head):
            vals.append(-(b - 251) * 256 - head[i + 1] - 108)
            i += 2
        else:
            break
    op = head[i:] if i < len(head) else []
    want = {(14,): 1, (21,): 3, (22,): 2, (4,): 2}.get(tuple(op))
    if want is not None and len(vals) == want:
        return vals[0]
    if op == [12, 10] and len(vals) == 2:
        return vals[0] + vals[1]
    return None


class Stats:
    """Measured coverage of the recorded files (evidence only, no verdicts)."""

    def __init__(self):
        self.offsets = collections.defaultdict(set)   # threshold -> {(field, delta)}
        self.forms = collections.Counter()
        self.index_last = set()                       # (INDEX, last offset) next to 256 / 65536
        self.unjudged = {}                            # case id -> description of a recorded-only file
        self.unjudged_read = set()                    # what cff.Read did with them
        self.width_ops = set()                        # width operands (width - nominalWidthX) next to a form boundary
        self.empty_items = set()                      # INDEXes seen with an empty element
        self.files = 0

    def observe(self, lines):
        for ln in lines:
            if '"ev":"reset"' in ln and '"judge":false' in ln:
                c = json.loads(ln)["c"]
                with _lock:
                    self.unjudged[c["id"]] = "predefined charset %d with %d glyphs" % (c["asm"]["charset"], c["n"])
                continue
            if '"ev":"read"' in ln and self.unjudged:
                e = json.loads(ln)
                if e["case"] in self.unjudged:
                    with _lock:
                        self.unjudged_read.add("%s: %s" % (self.unjudged[e["case"]],
                                                           "read without error" if e["ok"] else "Read error: " + e["err"]))
                continue
            if '"ev":"raw"' not in ln:
                continue
            e = json.loads(ln)
            if not e.get("ok"):
                continue
            with _lock:
                self.files += 1
                offs = [("charset", e["chsOff"]), ("encoding", e["encOff"]), ("charstrings", e["csOff"]),
                        ("fdselect", e["fdselOff"]), ("fdarray", e["fdaOff"]), ("eof", e["len"])]
                offs += [("private", p["off"]) for p in e["privs"]] + [("subrs-rel", p["subrsRel"]) for p in e["privs"]]
                for f, v in offs:
                    for t in (108, 256, 1132, 32768, 65536):
                        if t - 2 <= v <= t + 6:
                            self.offsets[t].add((f, v - t))
                if e["chs"]:
                    self.forms["charset format %d" % e["chs"][0]] += 1
                elif not e["isCID"]:
                    self.forms["charset predefined %d" % e["chsOff"]] += 1
                if e["enc"]:
                    self.forms["encoding format %d%s" % (e["enc"][0] & 127, "+supplement" if e["enc"][0] & 128 else "")] += 1
                elif not e["isCID"]:
                    self.forms["encoding predefined %d" % e["encOff"]] += 1
                if e["fdsel"]:
                    self.forms["FDSelect format %d" % e["fdsel"][0]] += 1
                for nm in ("name", "top", "str", "cs", "fda"):
                    if e[nm]["count"]:
                        self.forms["INDEX offSize %d" % e[nm]["offSize"]] += 1
                        last = e[nm]["offs"][-1]
                        for t in (256, 65536):
                            if t - 2 <= last <= t + 1:
                                self.index_last.add((nm, last))
                self.forms["header offSize %d" % e["hdr"][3]] += 1
                for nm in ("name", "str"):
                    o = e[nm]["offs"]
                    if any(a == b for a, b in zip(o, o[1:])):
                        self.empty_items.add(nm)
                for h in e["csHead"]:
                    v = _width_operand(h)
                    if v is not None and any(abs(abs(v) - t) <= 1 for t in (107.5, 1131.5, 32768)):
                        self.width_ops.add(v)

    def summary(self):
        hit = {}
        for t, s in sorted(self.offsets.items()):
            below = sorted({f for f, dlt in s if dlt == -1})
            above = sorted({f for f, dlt in s if dlt >= 0})
            hit[str(t)] = {"stored_value_t_minus_1": below, "stored_value_at_or_just_above_t": above}
        return {"files_walked": self.files, "boundary_hits": hit,
                "index_last_offset_near_offSize_boundary": sorted("%s:%d" % x for x in self.index_last),
                "width_operands_next_to_a_number_form_boundary": sorted(self.width_ops),
                "indexes_with_empty_element": sorted(self.empty_items),
                "recorded_not_judged": sorted(self.unjudged_read),
                "forms_seen": dict(sorted(self.forms.items()))}


def _validate_groups(ctx, binp, groups, stats):
    """groups: [(tag, cases, chunk size)]; all chunks are recorded and validated by a pool of TLC processes."""
    d = ctx.subdir("c13run")
    jobs = []
    for tag, cases, chunk in groups:
        for i in range(0, len(cases), chunk):
            jobs.append(("%s%d" % (tag, i // chunk), cases[i:i + chunk]))
    bad = []
    par = max(1, min(8, ctx.workers // 2))
    with ThreadPoolExecutor(max_workers=par) as ex:
        futs = [ex.submit(_validate_chunk, ctx, binp, ch, d, name, stats) for name, ch in jobs]
        for f in futs:
            bad += f.result()
    return bad


# ----------------------------------------------------------------------------- reporting
def _describe(case, labels, events):
    """Human-readable detail for a rejected case (description only)."""
    rd = next((e for e in events if e["ev"] == "read"), None)
    wr = next((e for e in events if e["ev"] == "write"), None)
    parts = []
    if wr and not wr["ok"]:
        parts.append("Write failed: " + wr["err"])
    if rd and not rd["ok"]:
        parts.append("Read failed: " + rd["err"])
    if rd and rd["ok"]:
        if "read-width" in labels:
            for g, (a, b) in enumerate(zip(case["w"], rd["w"])):
                if a != b:
                    parts.append("glyph %d: width %s (= %.6f) reads back as %s (= %.6f)" % (
                        g, a, a[0] + a[1] / 65536, b, b[0] + b[1] / 65536))
                    break
        for lab, key in (("read-UnderlinePosition", "ulPos"), ("read-UnderlineThickness", "ulThick"),
                         ("read-ItalicAngle", "angle"), ("read-FontMatrix", "fm")):
            if lab in labels:
                parts.append("%s %s reads back as %s (decimal mantissa, exponent)" % (key, case[key], rd[key]))
        for lab, key in (("read-glyph-names", "names"), ("read-CIDs", "cids"), ("read-FDSelect", "fd"),
                         ("read-encoding", "enc")):
            if lab in labels:
                diff = [i for i, (a, b) in enumerate(zip(case[key], rd[key])) if a != b][:3]
                parts.append("%s differ at %s (lengths %d / %d)" % (key, diff, len(case[key]), len(rd[key])))
        if "read-private" in labels:
            parts.append("private dicts %s read back as %s" % (
                json.dumps(case["priv"])[:300], json.dumps(rd["priv"])[:300]))
    return "; ".join(parts)


def _replay_case(ctx, case, expect_labels=None, shared=1):
    """Re-record one case alone and validate it alone; report it if TLC rejects it again."""
    binp = ctx.build("c13")
    d = ctx.subdir("replay")
    cp = os.path.join(d, "case.json")
    with open(cp, "w") as f:
        json.dump(case, f)
    tp = os.path.join(d, "trace.ndjson")
    ctx.run([binp, "one", cp, tp])
    ok, line, res = ctx.validate_trace("CFFLayoutTrace", tp, label="replay of case %s" % case.get("id"), traces=0)
    if ok:
        ctx.notes.append("a rejected case did not reproduce in isolation (case %s)" % case.get("id"))
        raise vlib.Infra("rejection of case %s did not reproduce in isolation" % case.get("id"))
    if line is None:
        raise vlib.Infra("replay failed without a rejected line:\n" + res.error_text[-2000:])
    bad = _diag(ctx, tp, "diagnosis of case %s" % case.get("id"))
    labels = set()
    for labs in bad.values():
        labels |= labs
    events = vlib.read_ndjson(tp)
    ev = events[line - 1]
    desc = case.get("desc", {})
    what = ("cff.Font.Write/cff.Read does not preserve the font: CFFLayoutTrace rejects the %r event; failing "
            "clauses: %s. %s. Font: %s, %d glyph(s), descriptor %s%s" % (
                ev["ev"], ", ".join(sorted(labels)), _describe(case, labels, events) or "see replay file",
                "CID-keyed with %d private dicts" % case["nfd"] if case["cid"] else "simple", case["n"],
                json.dumps(desc, sort_keys=True), "" if shared <= 1 else
                " (%d generated fonts fail with the same clauses; this is the smallest)" % shared))
    small = dict(case)
    ctx.violation(what, sig={"labels": ",".join(sorted(labels)), "kind": "cid" if case["cid"] else "simple",
                             "event": ev["ev"]}, case=small)


def _report(ctx, bad):
    """Group rejected cases by failing clauses, replay the smallest of each group.  A group whose clauses
    are all among those of smaller groups already reported (several defects in one font) is not replayed."""
    groups = collections.defaultdict(list)
    for case, labs in bad:
        groups[frozenset(labs)].append(case)
    reported = set()
    for labs, cs in sorted(groups.items(), key=lambda kv: (len(kv[0]), sorted(kv[0]))):
        if reported and labs <= reported:
            ctx.notes.append("%d rejected font(s) combine already reported clauses {%s}" % (len(cs), ",".join(sorted(labs))))
            continue
        cs.sort(key=lambda c: (c["n"], c["nfd"], len(json.dumps(c)), c["id"]))
        ctx.log("%d case(s) rejected with clauses {%s}; replaying the smallest" % (len(cs), ",".join(sorted(labs))))
        _replay_case(ctx, cs[0], shared=len(cs))
        reported |= labs


# ----------------------------------------------------------------------------- main
def _sweep_pads(ctx, binp, kinds, jlo, jhi, stats):
    """Notice lengths that put each stored offset of the (minimal) sweep font next to each boundary.
    A probe run measures where the sections are for a padding shortly below the boundary."""
    probes = {}
    for k in kinds:
        for t in THRESHOLDS:
            probes[(k, t)] = 1 if t == 108 else t - 260
    cases = _gen(ctx, "sweep", pads={100000 * k + p for (k, t), p in probes.items()}, label="CFFLayoutGen probe")
    cases = [c for c in cases if c["desc"]["ppad"] < 0]      # the Private DICT size sweep needs no probe
    for i, c in enumerate(cases):
        c["id"] = i + 1
    d = ctx.subdir("probe")
    tp = _record(ctx, binp, cases, d, "probe")
    by_id = {c["id"]: c for c in cases}
    pads = set()
    for e in vlib.read_ndjson(tp):
        if e["ev"] != "raw" or not e["ok"]:
            continue
        c = by_id[e["case"]]
        k = 0 if not c["cid"] else c["nfd"]
        p = c["desc"]["pad"]
        ts = [t for t in THRESHOLDS if probes[(k, t)] == p]
        offs = [e["chsOff"], e["encOff"], e["csOff"], e["fdselOff"], e["fdaOff"], e["len"]] + [q["off"] for q in e["privs"]]
        body = e["str"]["offs"][-1] - 1 if e["str"]["count"] else 0
        for t in ts:                      # String INDEX body length across 255 / 65535 (offSize 1->2, 2->3)
            tb = {108: 255, 65536: 65535}.get(t)
            if tb:
                for j in range(-2, 3):
                    L = p + (tb - body) + j
                    if 1 <= L < 99999:
                        pads.add(100000 * k + L)
        for t in ts:
            for o in offs:
                if 4 <= o <= t + 2:
                    for j in range(jlo, jhi + 1):
                        L = p + (t - o) + j
                        if 1 <= L < 99999:
                            pads.add(100000 * k + L)
    return pads


def run(ctx):
    ctx.assumptions += [
        "FontMatrix / BlueScale values are either equal to the default or farther from it than the writer's "
        "tolerance (1e-5 / 1e-6); |reals| in 1e-290..1e290 with at most nine digits; 1e-3 <= |ItalicAngle| < 180",
        "BlueValues/OtherBlues values fit in int16 (their deltas need not: pattern wide); widths are integers or 16.16 fractions below 50000 in magnitude",
        "strings are printable ASCII; glyph outlines are fixed small shapes (outline fidelity is C04/C05)",
        "an absent Encoding means the Standard Encoding (TN5176 default); for CID-keyed fonts an absent top-level "
        "FontMatrix means the identity and an absent Font DICT FontMatrix means 0.001 0 0 0.001 0 0",
        "a 256-glyph encoding without two consecutive codes is not representable in CFF and is not generated; a font "
        "with more than 64609 non-standard strings (SIDs end at 64999) is generated (thorough tier) and may be refused "
        "by Write, but must not be written wrongly",
        "fonts marked loose (FontMatrix numbers 1e-320, 1e305, -7e-305): the matrix values are not compared, Write and "
        "Read must return (8 s limit per call, typical call about 1 ms) and succeed",
    ]
    binp = ctx.build("c13")
    stats = Stats()
    pool = Pool()
    plain_subdir = ctx.subdir

    def locked_subdir(name=None):      # TLC runs in parallel threads
        with _lock:
            return plain_subdir(name)
    ctx.subdir = locked_subdir

    quick = ctx.quick()
    nsim = ctx.pick(200, 6000)
    parts = ctx.pick(1, 4)
    # Notice lengths offered to the random descriptors: below / across each boundary, moved by the seed
    rpads = {40 + ctx.seed % 50, 200 + (ctx.seed * 7) % 300, 1050 + (ctx.seed * 11) % 90,
             32690 + (ctx.seed * 13) % 80, 65450 + (ctx.seed * 17) % 90}
    cfg = "CFFLayout.cfg" if quick else "CFFLayoutFull.cfg"
    # Generation steps do not depend on each other (TLC, one worker each) nor on the model-checking run:
    # all are started at once; verdicts do not depend on the order.
    gens = ThreadPoolExecutor(max_workers=max(2, min(8, ctx.workers // 2)))
    f_model = gens.submit(ctx.tlc, "CFFLayout", cfg=cfg, timeout=2400, label="CFFLayout exhaustive (%s)" % cfg)
    # 2a. every value of every dimension (exhaustive enumeration of the descriptor set "ofat")
    f_ofat = gens.submit(_gen, ctx, "ofat", label="CFFLayoutGen ofat (exhaustive)")
    # 2a'. every shape of a nibble-coded real (sign x 1..9 digits x position of the decimal point, incl. trailing
    # zeros and zeros after the point) in every float-typed DICT field (exhaustive enumeration of "shapes")
    f_shapes = gens.submit(_gen, ctx, "shapes", label="CFFLayoutGen shapes (exhaustive)")
    # 2a''. the upper end (and the value below it) of every count field: 255 / 256 private dictionaries with both
    # FDSelect formats, 65534 / 65535 glyphs, CID 65535 (encoding counts 255 / 256 are part of "ofat")
    f_maxima = gens.submit(_gen, ctx, "maxima", label="CFFLayoutGen maxima (exhaustive)")
    # 2a-4. edges: every settable scalar over every operator's default value (+-1), empty INDEX elements, files with
    # predefined charsets / encodings assembled by the harness, width - nominalWidthX at the ends of the number forms
    f_edges = gens.submit(_gen, ctx, "edges", label="CFFLayoutGen edges (exhaustive)")
    # 2c. random points of the full product
    f_rand = [gens.submit(_gen, ctx, "rand", rpads, (), nsim // parts, "CFFLayoutGen rand (simulate, part %d)" % i,
                          1200, ctx.seed * 16 + i) for i in range(parts)]
    # 2d. large fonts
    f_big = None if quick else gens.submit(_gen, ctx, "big", bigns=(3000, 60000, 65534, 65535),
                                           label="CFFLayoutGen big", timeout=1800)
    # 2b. paddings that move every stored offset across every boundary (needs a measured probe)
    kinds = (0, 2) if quick else (0, 1, 2, 3)
    jlo, jhi = (-7, 1) if quick else (-14, 3)
    pads = _sweep_pads(ctx, binp, kinds, jlo, jhi, stats)
    f_sweep = gens.submit(_gen, ctx, "sweep", pads=pads, label="CFFLayoutGen sweep (exhaustive)")

    # numbering and de-duplication in a fixed order
    ofat = pool.add(f_ofat.result())
    shapes = pool.add(f_shapes.result())
    maxima = pool.add(f_maxima.result())
    edges = pool.add(f_edges.result())
    sweep = pool.add(f_sweep.result())
    rand = pool.add([c for f in f_rand for c in f.result()])
    big = pool.add(f_big.result()) if f_big else []
    nbig = len(big)
    if len(rand) < nsim // 3:
        raise vlib.Infra("random generation produced only %d fonts" % len(rand))
    ctx.sample({"abstract_font": {k: v for k, v in ofat[0].items() if k != "enc"}})
    ctx.sample({"descriptor": rand[0]["desc"]})

    # 3. every font: write, walk, read back, judge (chunks validated by parallel TLC processes)
    bad = _validate_groups(ctx, binp, [("maxima", maxima, 1), ("big", big, 2), ("ofat", ofat, 250),
                                       ("shapes", shapes, 250), ("edges", edges, 250), ("sweep", sweep, 250),
                                       ("rand", rand, 250)], stats)

    # 1. the design: exhaustive model checking of the offset loop (ran meanwhile)
    res = f_model.result()
    gens.shutdown()
    if not res.ok:
        raise vlib.Infra("CFFLayout.tla violates %s on the model -- the spec is wrong, not the code:\n%s"
                         % (res.violated, res.error_text[:1500]))
    ctx.cov["exhaustive"] = True
    ctx.cov["bounds"] = {
        "layout_model": open(os.path.join(vlib.SPEC_DIR, cfg)).read().split("INIT")[0].strip().splitlines()[1:],
        "layout_model_passes_max": res.diameter - 1,
    }

    ctx.cov["distinct_nontrivial"] = pool.n
    ctx.cov["rule"] = ("distinct abstract fonts generated by TLC (ofat %d + real-number shapes %d + count maxima %d + edges %d + sweep %d + rand %d + big %d), each written by "
                       "the library, walked, read back and judged by TLC; evaluations = recorded events validated"
                       % (len(ofat), len(shapes), len(maxima), len(edges), len(sweep), len(rand), nbig))
    ctx.cov["bounds"]["recorded_files"] = stats.summary()
    # liveness of the Private DICT size sweep (CFFLayoutGen PSweep): the Subrs offset stored in a Private DICT -- for
    # the last one its own length -- must have been seen on both sides of and at the 107/108 boundary
    seen = {dlt for f, dlt in stats.offsets.get(108, ()) if f == "subrs-rel"}
    # (108 itself cannot occur for the last DICT: a length of 108 with a one-byte operand needs a two-byte operand)
    if not {-2, -1, 1, 2} <= seen:
        raise vlib.Infra("the Private DICT size sweep did not put the Subrs offset on both sides of 108 (seen %s)"
                         % sorted(seen))
    if bad:
        _report(ctx, bad)


def replay(ctx, obj):
    _replay_case(ctx, obj["case"])
