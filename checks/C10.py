"""C10 -- subsetting keeps every selected glyph intact and consistently re-indexed.

1. TLC, exhaustive: SubsetGen.tla (the subsetter as a state machine over the abstract font of
   Subset.tla) on families of small fonts and *all* duplicate-free glyph lists starting with 0:
   every run stays inside the closure, saturates to the same set in any order, every finished run
   is accepted by the relation Failed(F, list, P) = {} (satisfiable), its content in old glyph ids
   is the font restricted to the retained set (deterministic up to the order of extras), and
   typical wrong results are rejected.  The same runs print one CASE per (font, list).
2. R: harness/cmd/c10 builds each abstract font as a concrete sfnt.Font (TrueType with nested
   composites, simple CFF, CID-keyed CFF with three FDs, GSUB 1.1/4.1, GPOS 2.1, cmap 4/12), calls
   the real Font.Subset / cff Outlines.Subset, Write + Read, and records projections.
3. V: seeded random larger fonts (up to 12 glyphs) and variants whose character map is laid out
   against the glyph list (runs that break and re-form under re-keying, formats 4/12/both, astral
   codes) go through the same harness.  The concrete realisation of each font (component record
   forms, empty / non-empty composite instructions, simple-glyph instructions) varies with
   VERIF_SEED and the font; the original font's cmap subtables are encoded by the harness itself.
4. Lookups of two subtables that overlap on their keys are judged on their *effective* rules
   (first subtable wins, before and after subsetting and after Write+Read); rules may involve
   glyph 0 and cover every glyph (coverage tables of the subset start at 0, range format).
6. Built-in encodings of simple CFF fonts whose glyphs carry StandardEncoding / ExpertEncoding names
   (the predefined encoding, sub-encodings with a standard-named glyph left unencoded, permutations,
   super-sets) must keep the meaning of every code in the subset and after Write+Read; degenerate
   lists ([0], only unmapped glyphs, only glyphs outside one cmap subtable, only blank glyphs) are
   part of every family.  If the library cannot decode the ORIGINAL font the harness built, the case
   is recorded as skipped (note; exit 2 only above 20 %), the run continues.
5. Size-boundary sweeps: concrete-only padding (copyright notice, glyph names, glyph programs,
   TrueType instructions) moves the String / CharStrings INDEX of the written subset through
   247..263 bytes (thorough: CharStrings also through 65527..65544) and its glyf table through
   0xFFF8..0x10008 and 0x1FFF8..0x20008; the harness measures the written files with its own table
   walker and the check fails (exit 2) if the boundary sizes were not produced.
   All recorded events are judged by TLC with SubsetTrace.tla (the relation of Subset.tla); a
   failing case is re-recorded alone and re-judged before it is reported.
"""
import json
import os
import random
import re
import threading
from concurrent.futures import ThreadPoolExecutor

import vlib

LEVEL = "model_checking"
MANIFEST = {
    "text": "TLC exhaustively checks the subsetter state machine SubsetGen.tla against the subset relation of "
            "Subset.tla (closure independent of discovery order, every finished run accepted, result = font "
            "restricted to the retained set, typical wrong results rejected) for families of fonts with 4-5 glyphs "
            "and all duplicate-free glyph lists starting with 0; each (font, list) is replayed into the real "
            "Font.Subset / cff Outlines.Subset on a harness-built concrete font (TrueType with nested composites, "
            "simple and CID-keyed CFF, GSUB 1.1/4.1, GPOS 2.1, cmap 4/12), followed by Write+Read, and TLC judges the "
            "recorded projections with SubsetTrace.tla; seeded random fonts of up to 12 glyphs, and variants whose "
            "character map is laid out against the glyph list (code runs that break and re-form under re-keying), go "
            "the same way; component record forms and instruction blocks vary per seed, font and glyph. Lookups with two "
            "overlapping subtables are compared on their effective rules; padded realisations sweep the written "
            "subset's CFF INDEX sizes through 255 (thorough: 65535) and its glyf table through 0x10000 and 0x20000 "
            "(sizes measured on the written files).",
    "note": "Trusted: TLC, the font builder/projector of harness/internal/subx (self-checked per font: the projection of "
            "the built font must be the abstract font). Two readings of 'needed extras' are accepted (between the "
            "ligature+component closure and the joint closure incl. single substitutions); single-substitution rules may "
            "be dropped but not altered; Write+Read is only demanded when a simple-CFF encoding stays representable "
            "(encoded glyphs 1..k). Feature tags reaching a rule's lookup are part of a rule's meaning.",
    "technique": "TLA+ model checking (TLC) of SubsetGen.tla/Subset.tla + trace validation of recorded Subset/Write/Read "
                 "projections against SubsetTrace.tla",
}

INVARIANTS = ["TypeOK", "InMax", "Saturated", "DoneAccepted", "DoneCanonical", "DoneDiscriminates",
              "NoClosureRejected", "Emit"]

# name -> TLA+ expression of the family (operators of SubsetGen.tla)
QUICK = [
    ("Q4", "FamQ(4)"),      # every family at four glyphs
]
THOROUGH = [
    ("S", "FamS(4) \\cup FamS(5)"),
    ("N", "FamN(4) \\cup FamN(5)"),
    ("T4", "FamT(4, 4, 0)"),
    ("T5", "FamT(5, 3, 1)"),
    ("L4", 'FamL(4, {"ttf", "cff"}, {1, 2, 3, 4})'),
    ("X4", "FamP(4) \\cup FamC(4) \\cup FamD(4) \\cup FamE(4) \\cup FamM(4)"),
    ("L5", 'FamL(5, {"ttf"}, {2}) \\cup FamL(5, {"cff"}, {4})'),
    ("M5", "FamM(5)"),
    ("X5", "FamP(5) \\cup FamD(5) \\cup FamE(5)"),
]

CLAUSE_TEXT = {
    "panic": "Subset panicked or returned a font that cannot be inspected",
    "identity": "a glyph of the subset is not a glyph of the original font (or occurs twice)",
    "prefix": "glyph i of the subset is not the glyph listed at position i",
    "exact": "Outlines.Subset did not return exactly the listed glyphs",
    "closure": "the retained glyph set is not the list plus the glyphs needed by composites/ligatures",
    "attrs": "a retained glyph lost its outline, width, name, CID, private dictionary or font matrix",
    "comps": "a composite reference no longer points to the original component glyph",
    "cmap": "a character of a listed glyph is not mapped to its new index, or another character is mapped",
    "cmap-extras": "a character of a retained extra glyph (component / ligature) is not mapped to its new index",
    "enc": "the built-in encoding is not re-keyed (entry of a retained glyph wrong, or entry of a dropped glyph left)",
    "pairs": "kerning pairs among listed glyphs are missing, not re-keyed, or foreign pairs are present",
    "pairs-extras": "a kerning pair involving a retained extra glyph is missing",
    "ligs": "ligature rules among listed glyphs are missing, not re-keyed, or foreign rules are present",
    "ligs-extras": "a ligature rule among retained glyphs (involving an extra glyph) is missing",
    "ligs-order": "ligature rules with the same first glyph changed their relative order",
    "subs": "a single substitution of the subset is not the re-keyed image of an original one",
    "features": "a rule is reached by a different feature than in the original font (lookup indices shifted)",
    "write-read": "the subset cannot be written and read back",
    "reread-differs": "the subset changed when written and read back",
}

_re_failed = re.compile(r'<<"FAILED", (\d+), "(\w+)", "([\w-]+)">>')
_re_skipped = re.compile(r'<<"SKIPPED", (\d+), "(\w+)">>')


def _mc_files(name, expr):
    mod = "SubsetMC_" + name
    tla = ("---- MODULE %s ----\n(* generated by checks/C10.py *)\nEXTENDS SubsetGen\nMCFonts == %s\n====\n" % (mod, expr))
    cfg = "CONSTANT Fonts <- MCFonts\nINIT Init\nNEXT Next\nCHECK_DEADLOCK FALSE\n" + "".join(
        "INVARIANT %s\n" % i for i in INVARIANTS)
    return mod, {mod + ".tla": tla, mod + ".cfg": cfg}


# ----------------------------------------------------------------------------- random fonts (V)
def _random_font(rng):
    kind = rng.choice(["ttf", "ttf", "cff", "cid"])
    n = rng.randint(5, 12)
    g = list(range(n))
    F = {"kind": kind, "n": n,
         "out": g[:], "w": [300 + 10 * i for i in g],
         "name": [(-1 if kind == "cid" else i) for i in g],
         "cid": [(-1 if kind != "cid" else (0 if i == 0 else 2 * i + 3)) for i in g],
         "fd": [(-1 if kind == "ttf" else (rng.randint(0, 2) if kind == "cid" else 0)) for i in g],
         "comp": [[] for _ in g], "nameset": "plain", "cmapcfg": "4", "cmap": [], "hasenc": False, "enc": [],
         "gsub": "none", "ligs": [], "ligsplit": 0, "subs": [], "subs2": [],
         "gpos": False, "pairs": [], "pairs2": []}
    rng.shuffle(F["w"])
    lo = rng.choice([0, 1, 1])     # lo = 0: .notdef takes part in rules (coverage tables that start at glyph 0)
    if kind == "ttf":
        order = g[:]
        rng.shuffle(order)           # components only refer to glyphs later in a random order: acyclic
        for pos, a in enumerate(order):
            later = order[pos + 1:]
            if later and rng.random() < 0.4:
                k = rng.randint(1, min(3, len(later)))
                F["comp"][a] = [rng.choice(later) for _ in range(k)]
        for a in g:
            if not F["comp"][a] and rng.random() < 0.15:
                F["out"][a] = -3
    cfg = rng.choice(["4", "12", "4+12", "4|12", "none"])
    F["cmapcfg"] = cfg
    if cfg != "none":
        pool = list(range(33, 127)) + [0x20AC, 0x3042, 0xFFFD]
        pool = [c for c in pool if c not in (ord("f"), ord("i"), ord("l"))]
        if cfg == "4|12":
            pool = pool[:20]
        if cfg != "4":
            pool += [0x1F600, 0x1F601, 0x20000]
        codes = sorted(rng.sample(pool, rng.randint(0, min(2 * n, len(pool)))))
        F["cmap"] = [[c, rng.randint(1, n - 1)] for c in codes]
    if kind == "cff" and rng.random() < 0.7:
        F["hasenc"] = True
        codes = sorted(rng.sample(range(1, 256), rng.randint(0, n + 2)))
        F["enc"] = [[c, rng.randint(1, n - 1)] for c in codes]
    if kind != "cid" and rng.random() < 0.5:
        # glyph names from StandardEncoding / ExpertEncoding; the built-in encoding is a sub-encoding,
        # a permutation or a super-set of the predefined one (code of token k: 64+k resp. 47+k)
        F["nameset"] = rng.choice(["std", "expert"])
        if kind == "cff":
            base = 64 if F["nameset"] == "std" else 47
            top = n - 1 if F["nameset"] == "std" else min(n - 1, 10)
            enc = {}
            mode = rng.choice(["exact", "sub", "sub", "perm", "super"])
            for k in range(1, top + 1):
                if mode in ("sub",) and rng.random() < 0.4:
                    continue                      # a glyph with a predefined name, not encoded
                enc[base + k] = k
            if mode == "perm" and top >= 2:
                a, b = rng.sample(range(1, top + 1), 2)
                enc[base + a], enc[base + b] = b, a
            if mode == "super":
                enc[200] = rng.randint(1, n - 1)
                enc[33] = rng.randint(1, n - 1)
            F["hasenc"] = True
            F["enc"] = [[c, enc[c]] for c in sorted(enc)]
    if rng.random() < 0.7:
        order = rng.choice(["l", "s", "ls", "sl"])
        F["gsub"] = order
        if "l" in order:
            rules = []
            for _ in range(rng.randint(1, 4)):
                r = [rng.randint(lo, n - 1) for _ in range(rng.randint(2, 4))]
                if r not in rules:
                    rules.append(r)
            if rng.random() < 0.3:     # every glyph starts a ligature: long runs in the coverage
                rules += [[a, a, a] for a in range(lo, n) if [a, a, a] not in rules]
            F["ligs"] = rules
            F["ligsplit"] = rng.randint(0, len(rules))      # two subtables
        if "s" in order:
            delta = rng.choice([d for d in range(-(n - 2), n - 1) if d != 0])
            cand = [a for a in range(1, n) if 1 <= a + delta <= n - 1]
            cov = sorted(rng.sample(cand, rng.randint(1, min(3, len(cand)))))
            F["subs"] = [[a, a + delta] for a in cov]
            if rng.random() < 0.3:
                F["subs"] = [[a, a] for a in range(lo, n)]      # delta 0, every glyph covered
            if rng.random() < 0.5:     # a second subtable that overlaps the first
                d2 = rng.choice([d for d in range(-(n - 2), n - 1)])
                cand2 = [a for a in range(lo, n) if 1 <= a + d2 <= n - 1]
                if cand2:
                    F["subs2"] = [[a, a + d2] for a in sorted(rng.sample(cand2, rng.randint(1, min(4, len(cand2)))))]
    if rng.random() < 0.6:
        F["gpos"] = True
        seen = set()
        for _ in range(rng.randint(0, 6)):
            a, b = rng.randint(lo, n - 1), rng.randint(lo, n - 1)
            if (a, b) not in seen:
                seen.add((a, b))
                F["pairs"].append([a, b, rng.randint(-90, 90)])
        if rng.random() < 0.3:
            for a in range(lo, n):     # every glyph is a left glyph: a run in the coverage of the subset
                if (a, (a + 1) % n) not in seen:
                    seen.add((a, (a + 1) % n))
                    F["pairs"].append([a, (a + 1) % n, 40 + a])
        if F["pairs"] and rng.random() < 0.5:     # second subtable: some of the same pairs, other values
            seen2 = set()
            for e in rng.sample(F["pairs"], rng.randint(1, len(F["pairs"]))):
                seen2.add((e[0], e[1]))
                F["pairs2"].append([e[0], e[1], e[2] + 7])
            for _ in range(rng.randint(0, 3)):
                a, b = rng.randint(lo, n - 1), rng.randint(lo, n - 1)
                if (a, b) not in seen2:
                    seen2.add((a, b))
                    F["pairs2"].append([a, b, rng.randint(-90, 90)])
    return F


def _adversarial(case, rng):
    """A variant of a case whose character map is laid out *against* the glyph list: the codes of
    the listed glyphs form arithmetic progressions in the NEW numbering (code offset = new index
    offset, stride 1..3, or a permutation of it) with holes, and the codes in the holes belong to
    glyphs the list drops (or to nobody).  Re-keying then breaks the runs of the original
    subtable and forms new ones, which is where segment/range encoders go wrong."""
    F = json.loads(json.dumps(case["f"]))
    lst = case["list"]
    n = F["n"]
    cfg = rng.choice(["4", "12", "12", "4+12"])
    base = rng.choice([66, 0x4E00, 0xFFF0] if cfg == "4" else [66, 0x4E00, 0xFFFA, 0x1F600])
    if cfg == "4":
        base = min(base, 0xFF00)
    stride = rng.choice([1, 1, 2, 3])
    dropped = [g for g in range(1, n) if g not in lst]
    k = len(lst)
    pos = list(range(1, max(k, 2) + 2))          # new indices 1..k+1 (k.. are possible extras / holes)
    mode = rng.choice(["run", "run", "perm", "rev"])
    order = pos[:]
    if mode == "perm":
        rng.shuffle(order)
    elif mode == "rev":
        order.reverse()
    cmap = {}
    for i, j in zip(pos, order):
        code = base + stride * (i - 1)
        if j < k and rng.random() < 0.7:
            cmap[code] = lst[j]                   # a listed glyph: new index j
        elif dropped and rng.random() < 0.7:
            cmap[code] = rng.choice(dropped)      # a hole of the subset, a mapped code of the font
    for g in range(1, n):                         # some more codes elsewhere
        if rng.random() < 0.3:
            cmap[base + 40 + 5 * g] = g
    if cfg == "4+12":
        cmap[0x1F000 + rng.randint(0, 9)] = rng.randint(1, n - 1)
    F["cmapcfg"] = cfg
    F["cmap"] = [[c, cmap[c]] for c in sorted(cmap)]
    return {"f": F, "list": lst}


def _random_cases(seed, nfonts, lists_per_font):
    rng = random.Random(seed * 7919 + 10)
    cases = []
    for _ in range(nfonts):
        F = _random_font(rng)
        for _ in range(lists_per_font):
            k = rng.randint(0, F["n"] - 1)
            cases.append({"f": F, "list": [0] + rng.sample(range(1, F["n"]), k)})
    return cases


def _small_lists(rng, count):
    """Plain TrueType / CFF / CID fonts of 4..7 glyphs with random lists (carriers for _adversarial)."""
    res = []
    for _ in range(count):
        kind = rng.choice(["ttf", "ttf", "cff", "cid"])
        n = rng.randint(4, 7)
        g = list(range(n))
        F = {"kind": kind, "n": n, "out": g[:], "w": [300 + 10 * i for i in g],
             "name": [(-1 if kind == "cid" else i) for i in g],
             "cid": [(-1 if kind != "cid" else (0 if i == 0 else 2 * i + 3)) for i in g],
             "fd": [(-1 if kind == "ttf" else (i % 3 if kind == "cid" else 0)) for i in g],
             "comp": [[] for _ in g], "nameset": "plain", "cmapcfg": "none", "cmap": [], "hasenc": False, "enc": [],
             "gsub": "none", "ligs": [], "ligsplit": 0, "subs": [], "subs2": [],
             "gpos": False, "pairs": [], "pairs2": []}
        if kind == "ttf" and rng.random() < 0.6:       # one or two composites (extras behind the list)
            a = rng.randint(1, n - 1)
            F["comp"][a] = [rng.choice([x for x in g if x != a])]
            if rng.random() < 0.5:
                b = F["comp"][a][0]
                cand = [x for x in g if x not in (a, b)]
                if b != 0 and cand:
                    F["comp"][b] = [rng.choice(cand)]
        k = rng.randint(1, n - 1)
        res.append({"f": F, "list": [0] + rng.sample(range(1, n), k)})
    return res


# ----------------------------------------------------------------------------- size-boundary sweeps
def _plain(kind, n, dense=False):
    g = list(range(n))
    F = {"kind": kind, "n": n, "out": g[:], "w": [300 + 10 * i for i in g],
         "name": [(-1 if kind == "cid" else i) for i in g],
         "cid": [(-1 if kind != "cid" else (0 if i == 0 else 2 * i + 3)) for i in g],
         "fd": [(-1 if kind == "ttf" else (i % 3 if kind == "cid" else 0)) for i in g],
         "comp": [[] for _ in g], "nameset": "plain", "cmapcfg": "4", "cmap": [[65 + i, i] for i in g[1:]],
         "hasenc": False, "enc": [],
         "gsub": "none", "ligs": [], "ligsplit": 0, "subs": [], "subs2": [],
         "gpos": False, "pairs": [], "pairs2": []}
    if dense:
        F["gsub"], F["gpos"] = "l", True
        F["ligs"] = [[1, 2, 3]]
        F["pairs"] = [[a, (a + 1) % n, 40 + a] for a in g]
    return F


def _sweep_cases(thorough):
    """Cases whose concrete realisation is padded so that the tables of the *written subset* pass
    through the size boundaries of the formats, one unit at a time: the String INDEX (copyright
    notice, glyph names) and the CharStrings INDEX (glyph programs) of CFF subsets through
    250..260 bytes; the glyf table of TrueType subsets through 0xFFFF/0x10000 and 0x20000 (short and
    long loca).  The harness measures the written files itself and reports the sizes it saw."""
    cases = []
    cff = _plain("cff", 7, dense=True)
    cid = _plain("cid", 6)
    for F, lst, g in ((cff, [0, 5, 2, 1], 2), (cid, [0, 4, 1], 4)):
        for p in range(0, 300):
            cases.append({"f": F, "list": lst, "pad": {"copyright": p}})
        for p in range(0, 330):
            cases.append({"f": F, "list": lst, "pad": {"cs": [[g, p]]}})
        for p in range(0, 330, 3):
            cases.append({"f": F, "list": lst, "pad": {"cs": [[g, p], [lst[1], 150 - p // 3]]}})
    for p in range(0, 300):
        cases.append({"f": cff, "list": [0, 5, 2, 1], "pad": {"name": [[5, p // 2], [3, 40], [1, p - p // 2]]}})
    ttf = _plain("ttf", 7)
    ttf["comp"][6] = [3, 1]
    ttf["comp"][5] = [6]
    for lst in ([0, 5, 2, 4], [0, 4, 6, 2, 1]):
        for T in list(range(0xFFF8, 0x10009, 2)) + list(range(0x1FFF8, 0x20009, 2)):
            cases.append({"f": ttf, "list": lst, "pad": {"glyftotal": T}})
    if thorough:
        # the two-byte boundary of the CharStrings INDEX: two large glyph programs
        for p in range(0, 160):
            cases.append({"f": cid, "list": [0, 4, 1, 2], "pad": {"cs": [[4, 31280 + p], [1, 32760], [2, 30]]}})
    return cases


REQUIRED_SIZES = {"string": [254, 255, 256, 257], "charstrings": [254, 255, 256, 257],
                  "glyf": [0xFFFE, 0x10000, 0x10002, 0x1FFFE, 0x20000, 0x20002]}


def _sweeps(ctx, binp, state):
    cases = _sweep_cases(not ctx.quick())
    with state["lock"]:
        state["nontrivial"] += len(cases)
        ctx.sample({"sweep_case": {"list": cases[0]["list"], "pad": cases[400]["pad"], "kind": cases[0]["f"]["kind"]}}, limit=6)
    _run_cases(ctx, binp, cases, "size-boundary sweeps", state)


# ----------------------------------------------------------------------------- judging
def _judge(ctx, trace, label, ncases):
    """Run SubsetTrace on one trace file.  Returns (TLCResult, {case id: {(event, clause)}})."""
    res = ctx.tlc("SubsetTrace", trace_file=trace, timeout=1500, label=label, count=False)
    if res.violated is not None and res.rejected_line is None:
        raise vlib.Infra("SubsetTrace failed on %s: %s\n%s" % (label, res.violated, res.error_text[-1500:]))
    if res.rejected_line is not None:
        ev = vlib.read_ndjson(trace)[res.rejected_line - 1]
        small = {k: v for k, v in ev.items() if k != "f"}
        raise vlib.Infra("SubsetTrace could not consume line %d of %s (harness and model disagree about the "
                         "constructed font, or malformed event): %s" % (res.rejected_line, label, json.dumps(small)[:800]))
    failed = {}
    for line in res.prints:
        m = _re_failed.match(line.strip())
        if m:
            failed.setdefault(int(m.group(1)), set()).add((m.group(2), m.group(3)))
        elif line.startswith('<<"FAILED"'):
            raise vlib.Infra("unparsable FAILED line from SubsetTrace: " + line[:200])
        elif _re_skipped.match(line.strip()):
            res.skipped = getattr(res, "skipped", 0) + 1
    return res, failed


def _account(ctx, res, ncases, label="SubsetTrace (trace validation)", traces=True):
    """Evidence counters of one TLC run (all TLC runs of this check use count=False and are
    accounted here, under the caller's lock, because several run concurrently)."""
    ctx.cov["states"] += res.distinct
    ctx.cov["transitions"] += res.generated
    if traces:
        ctx.cov["traces_validated_against_impl"] += ncases
    ctx.cov["tlc_runs"].append({"label": label, "cmd": res.cmd, "generated": res.generated,
                                "distinct": res.distinct, "diameter": res.diameter, "wall_s": round(res.wall, 2),
                                "cases": ncases, "violated": res.violated})


def _run_cases(ctx, binp, cases, label, state):
    """cases: list of {"f", "list"}; records them with the real code and has TLC judge the events."""
    cases.sort(key=lambda c: (json.dumps(c["f"], sort_keys=True), c["list"], json.dumps(c.get("pad"), sort_keys=True)))
    d = ctx.subdir("run")
    chunk = 6000
    with state["lock"]:
        first = state["next_id"]
        state["next_id"] += len(cases)
    for i, c in enumerate(cases):
        c["id"] = first + i
    parts = [cases[k:k + chunk] for k in range(0, len(cases), chunk)]

    def work(k):
        part = parts[k]
        cp = os.path.join(d, "cases%d.ndjson" % k)
        tp = os.path.join(d, "trace%d.ndjson" % k)
        vlib.write_ndjson(cp, part)
        _, out = ctx.run([binp, "run", cp, tp], timeout=1500)
        info = json.loads(out.strip().splitlines()[-1])
        res, failed = _judge(ctx, tp, "%s chunk %d" % (label, k), len(part))
        os.remove(tp)
        os.remove(cp)
        return info, res, failed
    # a few chunks at a time: each is one harness process and one TLC process (-workers 1)
    with ThreadPoolExecutor(max_workers=state["par"]) as ex:
        results = list(ex.map(work, range(len(parts))))
    nfail = 0
    with state["lock"]:
        for part, (info, res, failed) in zip(parts, results):
            ctx.cov["evaluations"] += info["events"]
            state["skipped"] += getattr(res, "skipped", 0)
            for kind, hist in (info.get("sizes") or {}).items():
                for size in hist:
                    state["sizes"].setdefault(kind, set()).add(int(size))
            _account(ctx, res, len(part))
            byid = {c["id"]: c for c in part}
            for cid, fs in failed.items():
                nfail += 1
                c = byid[cid]
                for (ev, clause) in fs:
                    key = (ev, clause)
                    size = (c["f"]["n"], len(fs), len(c["list"]), cid)
                    if key not in state["witness"] or size < state["witness"][key][0]:
                        w = {"f": c["f"], "list": c["list"]}
                        if c.get("pad"):
                            w["pad"] = c["pad"]
                        state["witness"][key] = (size, w)
                    state["count"][key] = state["count"].get(key, 0) + 1
        state["total"] += len(cases)
    ctx.log("%s: %d cases judged, %d with violated clauses" % (label, len(cases), nfail))
    return nfail


def _family(ctx, binp, name, expr, state):
    """Model-check one family, replay its cases."""
    mod, files = _mc_files(name, expr)
    res = ctx.tlc(mod, cfg=mod + ".cfg", files=files, timeout=2400, workers=state["tlc_workers"],
                  label="SubsetGen exhaustive, fonts = %s" % expr, count=False)
    if not res.ok:
        raise vlib.Infra("SubsetGen.tla violates %s on family %s -- the spec is wrong, not the code:\n%s\n%s" % (
            res.violated, expr, res.error_text[:1500], "\n".join(res.counterexample[:60])))
    if not res.cases:
        raise vlib.Infra("family %s produced no case" % expr)
    keys = set(json.dumps(c, sort_keys=True) for c in res.cases)
    if len(keys) != len(res.cases):
        raise vlib.Infra("family %s: duplicate CASE lines" % expr)
    with state["lock"]:
        _account(ctx, res, len(res.cases), label="SubsetGen exhaustive, fonts = %s" % expr, traces=False)
        ctx.sample({"family": expr, "case": res.cases[len(res.cases) // 2]}, limit=4)
        state["nontrivial"] += sum(1 for c in res.cases if c["list"] != list(range(c["f"]["n"])))
    _run_cases(ctx, binp, res.cases, "family " + name, state)


def _random(ctx, binp, state):
    """V: seeded random larger fonts, and variants with a character map laid out against the list."""
    nf, nl = ctx.pick((60, 5), (1500, 8))
    rnd = _random_cases(ctx.seed, nf, nl)
    rng = random.Random(ctx.seed * 104729 + 3)
    nadv = ctx.pick(1500, 20000)
    rnd += [_adversarial(rng.choice(rnd), rng) for _ in range(nadv // 3)]
    small = _small_lists(rng, 2 * nadv // 3)
    rnd += [_adversarial(c, rng) for c in small]
    uniq = {}
    for c in rnd:
        uniq[json.dumps(c, sort_keys=True)] = c
    rnd = list(uniq.values())
    with state["lock"]:
        ctx.sample({"random_case": rnd[0]}, limit=5)
        state["nontrivial"] += len(rnd)
    _run_cases(ctx, binp, rnd, "random fonts", state)


def _replay_cases(ctx, wanted, tries=6):
    """wanted: list of (key, case).  Every case is re-recorded alone (one harness process per
    case) and TLC judges the re-recorded events.  Returns {index: (set of violated (event, clause)),
    events)}.  Defects that depend on map iteration order do not fail on every execution, so a case
    whose wanted clause does not show up is re-recorded up to `tries` times."""
    binp = ctx.build("c10")
    seen = {i: set() for i in range(len(wanted))}
    events = {i: [] for i in range(len(wanted))}
    todo = list(range(len(wanted)))
    for t in range(tries):
        if not todo:
            break
        d = ctx.subdir("replay")
        allp = os.path.join(d, "all.ndjson")
        with open(allp, "w") as fo:
            for i in todo:
                c = {"id": i, "f": wanted[i][1]["f"], "list": wanted[i][1]["list"]}
                if wanted[i][1].get("pad"):
                    c["pad"] = wanted[i][1]["pad"]
                cp = os.path.join(d, "case%d.json" % i)
                json.dump(c, open(cp, "w"))
                tp = os.path.join(d, "trace%d.ndjson" % i)
                ctx.run([binp, "one", cp, tp])
                fo.write(open(tp).read())
        res, failed = _judge(ctx, allp, "replay of %d isolated cases" % len(todo), len(todo))
        _account(ctx, res, 0, label="SubsetTrace (replay of isolated cases)")
        evs = vlib.read_ndjson(allp)
        for i in todo:
            got = failed.get(i, set())
            if got:
                events[i] = [e for e in evs if e["case"] == i]
            seen[i] |= got
        todo = [i for i in todo if wanted[i][0] is not None and wanted[i][0] not in seen[i]]
    return seen, events


def _describe(case, ev, clause, events):
    F = case["f"]
    small = {k: v for k, v in F.items() if k not in ("out", "w", "name", "cid") and v not in ([], False, "none")}
    if -3 in F["out"]:
        small["blank glyphs"] = [g for g, o in enumerate(F["out"]) if o == -3]
    if small.get("nameset") == "plain":
        small.pop("nameset")
    if F["kind"] != "cid":
        small.pop("fd", None)
    obs = ""
    for e in events:
        if e.get("ev") == ev:
            p = e["p"]
            obs = json.dumps({"st": e.get("st"), "msg": e.get("msg"),
                              "glyphs(w,comps)": [[g["w"], g["comps"]] for g in p["glyphs"]],
                              "cmaps": p["cmaps"], "enc": p["enc"], "ligs": p["ligs"], "subs": p["subs"],
                              "pairs": p["pairs"]})[:700]
    if case.get("pad"):
        small["concrete padding"] = case["pad"]
    where = {"subset": "(*sfnt.Font).Subset", "osubset": "(*cff.Outlines).Subset", "reread": "Write+Read of the subset"}[ev]
    return ("%s: %s [clause %s of spec/Subset.tla]. font %s, glyph list %s (glyph g has width %s); observed %s" % (
        where, CLAUSE_TEXT.get(clause, clause), clause, json.dumps(small), case["list"],
        "w[g]=" + json.dumps(F["w"]), obs))


def run(ctx):
    ctx.assumptions += [
        "fonts carry only what the subsetter declares supported: GSUB 1.1/4.1, GPOS 2.1, no GDEF, cmap formats 4 and 12",
        "retained set accepted between MinSet (ligature closure of the list, then components) and MaxSet (joint closure "
        "incl. single substitutions); single-substitution rules may be dropped but must not be altered",
        "Write+Read is demanded only when a simple-CFF encoding of the subset is representable (encoded glyphs are 1..k)",
        "glyph attributes are opaque tokens: distinct outline, width, name, CID per glyph; three font dictionaries with "
        "distinct private dictionary and font matrix",
    ]
    fams = ctx.pick(QUICK, THOROUGH)
    binp = ctx.build("c10")
    # several TLC / harness processes run concurrently: serialise scratch-directory creation
    # and the evidence counters (local work-around, lib/vlib.py is not thread-safe)
    lock = threading.RLock()
    orig_subdir = ctx.subdir

    def locked_subdir(name=None):
        with lock:
            return orig_subdir(name)
    ctx.subdir = locked_subdir
    state = {"next_id": 0, "witness": {}, "count": {}, "lock": lock, "total": 0, "nontrivial": 0,
             "par": 4, "tlc_workers": max(2, ctx.workers // 2), "sizes": {},
             "skipped": 0}
    jobs = [(lambda n=name, e=expr: _family(ctx, binp, n, e, state)) for name, expr in fams]
    jobs.insert(1, lambda: _random(ctx, binp, state))
    jobs.insert(1, lambda: _sweeps(ctx, binp, state))
    try:
        with ThreadPoolExecutor(max_workers=2) as ex:     # two families at a time
            futs = [ex.submit(j) for j in jobs]
            for f in futs:
                f.result()
    finally:
        ctx.subdir = orig_subdir
    total_cases = state["total"]
    ctx.cov["exhaustive"] = True
    ctx.cov["bounds"] = {"families": {n: e for n, e in fams}, "glyph_lists": "all duplicate-free lists starting with 0",
                         "random_fonts": "5..12 glyphs"}
    ctx.cov["distinct_nontrivial"] = state["nontrivial"]
    ctx.cov["rule"] = ("distinct (font, glyph list) cases replayed into the real code and judged by TLC, not counting "
                       "the identity list 0..n-1; evaluations = recorded events (subset / outlines subset / reread / "
                       "builder self-check) judged by SubsetTrace.tla; %d cases in total" % total_cases)

    if state["skipped"]:
        # not a verdict of this property: the library could not decode a font built from valid parts
        ctx.notes.append("%d of %d cases were not judged: the library cannot inspect the ORIGINAL font the harness "
                         "built (Write/Read or decoding of valid tables fails: the subject of C01/C09, not of C10)" % (
                             state["skipped"], state["total"]))
        ctx.log("NOTE: %d cases skipped, original font not inspectable by the library" % state["skipped"])
        if state["skipped"] * 5 > state["total"]:
            raise vlib.Infra("more than 20%% of the cases (%d of %d) could not be judged because the library cannot "
                             "inspect the original fonts" % (state["skipped"], state["total"]))
    ctx.cov["bounds"]["written_subset_sizes_seen"] = {k: sorted(v) for k, v in state["sizes"].items()}

    # report: one reproduced witness per violated clause
    wanted = [(key, state["witness"][key][1]) for key in sorted(state["witness"])]
    seen, events = _replay_cases(ctx, wanted)
    unreproduced = []
    for i, (key, case) in enumerate(wanted):
        ev, clause = key
        if key not in seen[i]:
            unreproduced.append(key)
            ctx.notes.append("clause %s/%s failed in the campaign (%d cases) but did not reproduce in isolation on %s" % (
                ev, clause, state["count"][key], json.dumps(case)[:300]))
            continue
        what = _describe(case, ev, clause, events[i]) + " -- %d of %d cases violate this clause" % (
            state["count"][key], total_cases)
        ctx.violation(what, sig={"event": ev, "clause": clause, "kind": case["f"]["kind"]},
                      case={"case": case, "event": ev, "clause": clause})
    if unreproduced and not ctx.violations and not ctx.known_hits:
        raise vlib.Infra("violated clauses did not reproduce in isolation: %s" % unreproduced)
    # the sweeps must really have reached the boundaries (measured on the written files by the
    # harness' own table walker); a miswritten table is not measurable, so only when nothing failed
    if not ctx.violations and not ctx.known_hits:
        required = dict(REQUIRED_SIZES)
        if not ctx.quick():
            required["charstrings"] = required["charstrings"] + [65534, 65535, 65536, 65537]
        missing = {k: [x for x in v if x not in state["sizes"].get(k, ())] for k, v in required.items()}
        missing = {k: v for k, v in missing.items() if v}
        if missing:
            raise vlib.Infra("the size-boundary sweeps did not produce subsets of these sizes: %s (seen: %s)" % (
                missing, {k: sorted(v) for k, v in state["sizes"].items()}))


def replay(ctx, obj):
    c = obj["case"]
    key = (c["event"], c["clause"])
    seen, events = _replay_cases(ctx, [(key, c["case"])])
    seen, events = seen[0], events[0]
    if key in seen:
        ctx.violation(_describe(c["case"], key[0], key[1], events),
                      sig={"event": key[0], "clause": key[1], "kind": c["case"]["f"]["kind"]}, case=c)
    else:
        ctx.log("replay: clause %s/%s is not violated (violated now: %s)" % (key[0], key[1], sorted(seen)))
