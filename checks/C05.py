"""C05 -- Type 2 charstring interpretation conforms to Adobe TN5177.

spec/Type2.tla is the Type 2 abstract machine written from the Technical Note.  In generation
mode TLC builds well-formed programs operator-first *together with their meaning* (path, stems,
masks, width) and single-fault mutants whose meaning is "error".

1. TLC, exhaustive (Type2.cfg): every operator, all operand vectors over a two-value boundary
   set, programs of <= 2 stack-clearing operators, with and without subroutine calls: stack,
   stage, width and path invariants, and ReplayAgrees (executing the generated text from scratch,
   resolving calls through the bias rule, gives the meaning the generator accumulated).
   Every terminal program of this run is also replayed into the real decoder.
2. R, "feature" programs (Type2Feat.cfg, simulation): each behaviour is dedicated to one operator
   on top of a small base vocabulary, so that a disagreement is attributed to an operator.
3. R, "mix" programs (Type2Gen.cfg): long programs over all operators (minus those that already
   failed in 2, so that a known wrong operator does not mask the rest), operand counts up to the
   48-entry stack limit, subroutine INDEXes of size 0,1,1239,1240,33899,33900,40000.
4. R, fault programs (Type2Fault.cfg): one fault each; the decoder must return an error.
The harness (harness/cmd/c05) assembles CFF files around each program with its own assembler
(simple and CID-keyed with a decoy FD, all number encodings) and calls cff.Read; it only compares
the decoded glyph with the values TLC printed.  A failing case is re-run alone before it counts.
"""
import json
import os

import vlib

LEVEL = "model_checking"
MANIFEST = {
    "text": "TLC model-checks the Type 2 abstract machine Type2.tla (written from TN5177) exhaustively on short "
            "programs over every operator and uses it in generation mode to produce well-formed charstring programs "
            "with their meaning (path, stems, masks, width; operator-first, operand counts up to the 48-entry limit, "
            "subroutine tables crossing both bias thresholds, integer and 16.16 operands) and single-fault mutants "
            "with meaning 'error'; a harness assembles simple and CID-keyed CFF files around each program and "
            "cff.Read's result is compared with what TLC printed.",
    "note": "Trusted: TLC, the harness's CFF assembler and comparison. div/mul/sqrt only with exact results, "
            "random only where its value is irrelevant, seac-style endchar excluded. Operand-count faults other "
            "than an empty stack are not demanded (TN5177 does not define them).",
    "technique": "TLA+ model checking (TLC) of Type2.tla + replay of TLC-generated programs and fault mutants "
                 "into cff.Read",
}

BASE = {"rmoveto", "hmoveto", "vmoveto", "rlineto", "endchar", "add", "sub", "drop", "exch", "return"}
FINE = [("Unit = 1", "Unit = 65536"), ("MaxV = 32000", "MaxV = 131072000"), ("MaxPos = 1000000", "MaxPos = 524288000"),
        ("CoarseVals", "FineVals"), ("CoarseSVals", "FineSVals"),
        ("CoarseDWs", "FineDWs"), ("CoarseNWs", "FineNWs")]


def _cfg(name, fine=False, subs=()):
    text = open(os.path.join(vlib.SPEC_DIR, name)).read()
    if fine:
        for a, b in FINE:
            assert a in text, a
            text = text.replace(a, b)
    for a, b in subs:
        assert a in text, (name, a)
        text = text.replace(a, b)
    return text


def _ops(case, g=None):
    """Operators used by glyph g of the font (all glyphs if g is None) and by the subroutines."""
    s = set()
    mains = [gl["main"] for gl in case["glyphs"]] if g is None else [case["glyphs"][g]["main"]]
    for toks in mains + [b["toks"] for b in case["subrs"]]:
        for t in toks:
            if isinstance(t, str):
                s.add(t)
            elif isinstance(t, list):
                s.add(t[0])
    return s


def _ntok(case, g):
    return len(case["glyphs"][g]["main"]) + sum(len(b["toks"]) for b in case["subrs"])


class Runner:
    def __init__(self, ctx):
        self.ctx = ctx
        self.bin = ctx.build("c05")
        self.dir = ctx.subdir("c05")
        self.next_id = 0
        self.k = 0
        self.distinct = set()
        self.ops_seen = {}
        self.failed_feats = set()
        self.reported = set()
        self.fonts = 0
        self.indet = 0

    def replay(self, cases, label, one_variant=False):
        """Run the cases through the harness; returns the list of (case, verdict) failures."""
        ctx = self.ctx
        for c in cases:
            c["id"] = self.next_id
            self.next_id += 1
        self.k += 1
        cp = os.path.join(self.dir, "cases%d.ndjson" % self.k)
        vp = os.path.join(self.dir, "verdicts%d.ndjson" % self.k)
        vlib.write_ndjson(cp, cases)
        ctx.run([self.bin, "replay", cp, vp], timeout=1200, env={"C05_ONE_VARIANT": "1" if one_variant else "0"})
        byid = {c["id"]: c for c in cases}
        fails = []
        n = 0
        with open(vp) as f:
            for line in f:
                v = json.loads(line)
                n += 1
                if not v["ok"]:
                    fails.append((byid[v["id"]], v))
        if n < (1 if one_variant else 2) * len(cases):   # at least one verdict per case and variant
            raise vlib.Infra("harness produced %d verdicts for %d cases" % (n, len(cases)))
        ctx.cov["evaluations"] += n
        for c in cases:
            ops = _ops(c)
            if ops - BASE or c["glyphs"][-1]["fault"]:
                self.distinct.add(json.dumps([[g["main"] for g in c["glyphs"]], c["subrs"], c["ls"], c["gs"]],
                                             sort_keys=True))
            for o in ops:
                self.ops_seen[o] = self.ops_seen.get(o, 0) + 1
            if len(c["glyphs"]) > 1:
                self.fonts += 1
            self.indet += sum(1 for g in c["glyphs"] if g["indet"])
        os.remove(cp)
        os.remove(vp)
        ctx.log("%s: %d cases, %d verdicts, %d failing" % (label, len(cases), n, len(fails)))
        return fails

    def confirm(self, case):
        """Re-run one case alone; returns its failing verdicts."""
        ctx = self.ctx
        d = ctx.subdir("one")
        cp = os.path.join(d, "case.ndjson")
        vp = os.path.join(d, "verdict.ndjson")
        vlib.write_ndjson(cp, [case])
        ctx.run([self.bin, "replay", cp, vp], env={"C05_ONE_VARIANT": "all"})
        return [v for v in vlib.read_ndjson(vp) if not v["ok"]]

    def report(self, fails, stratum):
        """Group failures, confirm the smallest case of each group in isolation, report it."""
        ctx = self.ctx
        groups = {}
        for c, v in fails:
            gl = c["glyphs"][v["g"]]
            if gl["fault"]:
                key = ("fault", gl["fault"], v["kind"])
            elif v["kind"] == "context":
                key = ("context", "", v["kind"])       # a glyph decodes differently inside a font
            elif gl["feat"] != "mix":
                key = ("feat", gl["feat"], v["kind"])
            else:
                key = ("mix", ",".join(sorted(_ops(c, v["g"]) - BASE))[:200], v["kind"])
            groups.setdefault(key, []).append((c, v))
        # mix failures: one report per kind, smallest program
        merged = {}
        for key, lst in groups.items():
            k2 = key if key[0] != "mix" else ("mix", "", key[2])
            merged.setdefault(k2, []).extend(lst)
        # when many operator families fail in the same way, the culprit is the vocabulary they share
        # (moveto, rlineto, endchar, the arithmetic base) or the container, not each of them
        for kind in set(k[2] for k in merged if k[0] == "feat"):
            fam = [k for k in merged if k[0] == "feat" and k[2] == kind]
            if len(fam) > 6:
                for k in fam:
                    merged.setdefault(("base", "", kind), []).extend(merged.pop(k))
        for key, lst in sorted(merged.items()):
            lst.sort(key=lambda cv: (len(cv[0]["glyphs"]), _ntok(cv[0], cv[1]["g"]), cv[0]["id"]))
            if key[0] == "feat" and not (_ops(lst[0][0], lst[0][1]["g"]) - BASE):
                # the smallest failing program does not even use the operator of its family: the
                # failure is in the container (INDEX, DICT, FD selection, width defaults)
                key = ("container", "", key[2])
            if key[0] == "feat":
                self.failed_feats.add(key[1])
            if key in self.reported:
                continue          # the same operator / fault class already reported from another stratum
            if key[0] == "fault" and key[1] == "deep":
                # nesting deeper than 10 is an implementation limit of TN5177 appendix B, not one of the
                # malformations the property lists: diagnostic only
                self.ctx.notes.append("a program with 11 nested subroutine calls was accepted (%d cases)" % len(lst))
                self.reported.add(key)
                continue
            self.reported.add(key)
            c, v = lst[0]
            again = [a for a in self.confirm(c) if a["kind"] == v["kind"]] or self.confirm(c)
            if not again:
                ctx.notes.append("a failing verdict did not reproduce in isolation (%s)" % (key,))
                raise vlib.Infra("failure of case %d (%s) did not reproduce in isolation" % (c["id"], key))
            v = again[0]
            g = v["g"]
            main = c["glyphs"][g]["main"]
            special = sorted(_ops(c, g) - BASE)
            if v["kind"] == "accepted":
                what = ("cff.Read accepts a malformed Type 2 program (fault class %s: %s); TN5177 makes it an "
                        "error. Program: %s" % (c["glyphs"][g]["fault"], v["detail"], json.dumps(main)[:400]))
            elif v["kind"] == "rejected":
                what = ("cff.Read rejects a well-formed Type 2 program (%s). Operators %s; program: %s"
                        % (v["detail"], special, json.dumps(main)[:400]))
            elif v["kind"] == "panic":
                what = "cff.Read panics (%s) on program %s" % (v["detail"], json.dumps(main)[:400])
            elif v["kind"] == "context":
                what = ("the interpretation of a charstring depends on the other glyphs of the font (TN5177: every "
                        "charstring runs on a fresh machine; Type2.tla NextGlyph): glyph %d, observation '%s', %s: %s. "
                        "%d failing observations. Charstrings of the font: %s"
                        % (g, v["obs"], v.get("field", ""), v["detail"], len(lst),
                           json.dumps([gl["main"] for gl in c["glyphs"]])[:700]))
            else:
                what = ("cff.Read decodes a well-formed Type 2 program differently from TN5177 (Type2.tla): %s: %s. "
                        "%d of %d failing cases in group %s; smallest program (%d tokens, operators %s): %s%s"
                        % (v["field"], v["detail"], len(lst), len(fails), key[:2], _ntok(c, g), special,
                           json.dumps(main)[:500],
                           (" subrs " + json.dumps(c["subrs"])[:300]) if c["subrs"] else ""))
            sig = {"stratum": stratum, "group": key[0], "op": key[1] if key[0] in ("feat", "fault") else ",".join(special),
                   "kind": v["kind"], "unit": c["unit"]}
            ctx.violation(what, sig=sig, case=c)


def _gen(ctx, r, cfgname, n, depth, label, fine=False, subs=(), excluded=(), least=None):
    files = {"X.cfg": _cfg(cfgname, fine=fine, subs=subs)}
    module = "Type2MC"
    if excluded:
        files["Type2X.tla"] = ("---- MODULE Type2X ----\nEXTENDS Type2MC\nExcl == %s\n====\n"
                               % vlib.tla_value(set(excluded)))
        files["X.cfg"] = files["X.cfg"].replace("Excluded <- NoExcl", "Excluded <- Excl")
        module = "Type2X"
    res = ctx.tlc(module, cfg="X.cfg", files=files, workers=1, simulate=n, depth=depth, timeout=1500, label=label)
    if res.violated:
        raise vlib.Infra("%s: the generator violates %s -- the spec is wrong, not the code:\n%s"
                         % (label, res.violated, res.error_text[:1500]))
    if len(res.cases) < (least if least is not None else n // (16 if fine else 5)):
        raise vlib.Infra("%s produced only %d programs" % (label, len(res.cases)))
    return res.cases


def run(ctx):
    ctx.assumptions += [
        "numbers: integers |v| <= 32000, or 16.16 fixed point |v| <= 2000 (TLC integers are 32-bit)",
        "mul rounds its product to 16.16, halves away from zero (as FreeType's FT_MulFix); a div result that is not "
        "a 16.16 number is modelled only as an operand of a path operator (rounded the same way) and only for "
        "|dividend| < 1/2 (32-bit TLC integers); sqrt only with exact results; random only where its value cannot matter",
        "endchar with adx ady bchar achar (deprecated seac form): 4 operands carry no width, 5 do; the composition "
        "of the named glyphs is outside the model -- the glyph's own outline is compared (what the tree returns)",
        "operand-count faults other than an empty stack are outside the oracle",
        "subroutine bias rule taken from TN5176 section 16; nesting limit 10 from TN5177 appendix B",
        "a charstring that reads a transient cell it has not written has no specified value; the only demand is "
        "that its decode is the same alone and inside any font (independence), compared between two real decodes",
        "pen positions and stem edges may leave the operand range (|pos| <= 1000000 in integer units; 16.16 runs "
        "keep |pos| <= 8000 because TLC integers are 32-bit)",
    ]
    r = Runner(ctx)

    # 1. the design: exhaustive model checking, every terminal program replayed
    sub = [("CHECK_DEADLOCK FALSE", "INVARIANT Emit\nCHECK_DEADLOCK FALSE")]
    if not ctx.quick():
        sub.append(("MaxArgs = 3", "MaxArgs = 5"))
    res = ctx.tlc("Type2MC", cfg="X.cfg", files={"X.cfg": _cfg("Type2.cfg", subs=sub)},
                  timeout=ctx.pick(600, 2400), label="Type2 exhaustive (all operators, short programs)")
    if not res.ok:
        raise vlib.Infra("Type2.tla violates %s on the model -- the spec is wrong, not the code:\n%s"
                         % (res.violated, res.error_text[:1500]))
    ctx.cov["exhaustive"] = True
    ctx.cov["bounds"] = {"operators": "all 44 + subroutine calls", "clearing_ops_per_program": 2,
                         "operands_per_operator": "%d (operators with a larger minimum: their minimum)" % ctx.pick(3, 5),
                         "operand_values": "{-2, 5} for the last 6 operands of the dedicated operator, else 5",
                         "index_sizes": [0, 1240],
                         "beyond": "simulation: 14 operators/program, 48 operands, 7 INDEX sizes, 16.16 numbers"}
    if res.cases:
        ctx.sample({"exhaustive_case": res.cases[len(res.cases) // 2]})
    fails = r.replay(res.cases, "exhaustive programs", one_variant=ctx.quick())
    r.report(fails, "exhaustive")

    # 1b. fonts of two glyphs (transient array, hints, widths left behind by the first glyph)
    res = ctx.tlc("Type2MC", cfg="X.cfg", files={"X.cfg": _cfg("Type2Font.cfg", subs=sub[:1])},
                  timeout=900, label="Type2 exhaustive (fonts of two glyphs, fresh machine per charstring)")
    if not res.ok:
        raise vlib.Infra("Type2.tla (fonts) violates %s on the model -- the spec is wrong, not the code:\n%s"
                         % (res.violated, res.error_text[:1500]))
    ctx.sample({"font_case": res.cases[len(res.cases) // 2]})
    fails = r.replay(res.cases, "exhaustive two-glyph fonts", one_variant=ctx.quick())
    r.report(fails, "exhaustive")

    # 1c. 16.16 arithmetic at the representation boundary (ties of mul / div, both signs, one unit either side)
    res = ctx.tlc("Type2MC", cfg="X.cfg", files={"X.cfg": _cfg("Type2Tie.cfg", subs=sub[:1])},
                  timeout=900, label="Type2 exhaustive (16.16 ties of mul and div)")
    if not res.ok:
        raise vlib.Infra("Type2.tla (ties) violates %s on the model -- the spec is wrong, not the code:\n%s"
                         % (res.violated, res.error_text[:1500]))
    ctx.sample({"tie_case": res.cases[len(res.cases) // 3]})
    fails = r.replay(res.cases, "exhaustive 16.16 tie programs", one_variant=ctx.quick())
    r.report(fails, "exhaustive")

    # 2. one operator per behaviour
    for fine in ([False] if ctx.quick() else [False, True]):
        cases = _gen(ctx, r, "Type2Feat.cfg", ctx.pick(1500, 12000), 2000,
                     "Type2 feature programs (%s)" % ("16.16" if fine else "integers"), fine=fine)
        ctx.sample({"feature_case": cases[0]})
        fails = r.replay(cases, "feature programs")
        r.report(fails, "feature")

    # 2b. fonts of three glyphs over the operators with interpreter-level state (transient array, hint
    # counts, width, random, calls): every glyph alone, in the font, in the reversed font, across two FDs
    cases = _gen(ctx, r, "Type2Feat.cfg", ctx.pick(240, 3000), 3000, "Type2 state fonts (three glyphs)",
                 subs=[("NGs <- OneGlyph", "NGs <- ThreeGlyphs"), ("Feats <- AllFeats", "Feats <- StateFeats")])
    fails = r.replay(cases, "state fonts")
    r.report(fails, "fonts")

    # 3. everything together, minus what already failed
    excl = sorted(r.failed_feats)
    if excl:
        ctx.notes.append("mix programs generated without the operators that failed on their own: %s" % excl)
    for fine in ([False] if ctx.quick() else [False, True]):
        # 16.16 numbers are confined to |v| <= 2000 (32-bit TLC integers): shorter operand lists stay in range
        cases = _gen(ctx, r, "Type2Gen.cfg", ctx.pick(160, 1500), 4000,
                     "Type2 mix programs (%s)" % ("16.16" if fine else "integers"), fine=fine, excluded=excl,
                     subs=[("MaxArgs = 48", "MaxArgs = 14"), ("MaxOps = 14", "MaxOps = 8")] if fine else ())
        ctx.sample({"mix_case": cases[0]})
        fails = r.replay(cases, "mix programs")
        r.report(fails, "mix")

    # 4. single-fault programs
    for fine in ([False] if ctx.quick() else [False, True]):
        cases = _gen(ctx, r, "Type2Fault.cfg", ctx.pick(320, 3000), 2000,
                     "Type2 fault programs (%s)" % ("16.16" if fine else "integers"), fine=fine)
        ctx.sample({"fault_case": cases[0]})
        fails = r.replay(cases, "fault programs")
        r.report(fails, "fault")
    # drawing before the first move, after every kind of operator that may precede it (stems, masks, width): a fault
    # class of its own run, so that it does not depend on what the mixed run happens to draw
    cases = _gen(ctx, r, "Type2Fault.cfg", ctx.pick(400, 2400), 2000, "Type2 fault programs (drawing before the first move)",
                 subs=[("Faults <- AllFaults", "Faults <- DrawFirstOnly")], least=20)   # most behaviours move first
    fails = r.replay(cases, "draw-first programs")
    r.report(fails, "fault")
    cases = _gen(ctx, r, "Type2Fault.cfg", ctx.pick(150, 1000), 2000, "Type2 fault programs (operator on an empty stack)",
                 subs=[("Faults <- AllFaults", "Faults <- LenientFaults")])
    fails = r.replay(cases, "empty-stack programs")
    r.report(fails, "fault")

    ctx.cov["distinct_nontrivial"] = len(r.distinct)
    ctx.cov["rule"] = ("distinct TLC-generated programs (text + subroutines + INDEX sizes) that use at least one "
                       "operator outside the base vocabulary (moveto, rlineto, endchar, add/sub/drop/exch) or carry "
                       "a fault; evaluations = (program, CFF variant) pairs decoded by cff.Read and compared")
    ctx.cov["operator_occurrences"] = dict(sorted(r.ops_seen.items()))
    ctx.cov["fonts_with_several_glyphs"] = r.fonts
    ctx.cov["glyphs_reading_unwritten_transient_cells"] = r.indet
    if r.fonts == 0 or r.indet == 0:
        raise vlib.Infra("no multi-glyph font / no indeterminate glyph generated")
    missing = [o for o in ("flex", "flex1", "hflex", "hflex1", "roll", "index", "ifelse", "callsubr", "callgsubr",
                           "cntrmask", "hintmask", "hvcurveto", "vhcurveto", "put", "get", "div", "sqrt", "random")
               if r.ops_seen.get(o, 0) == 0]
    if missing:
        raise vlib.Infra("operators never generated: %s" % missing)


def replay(ctx, obj):
    r = Runner(ctx)
    c = obj["case"]
    bad = r.confirm(c)
    if bad:
        v = bad[0]
        # (not ctx.violation: that would overwrite a replay file of the same seed)
        ctx.violations.append({"what": "replayed case still fails: %s %s %s"
                               % (v["kind"], v.get("field", ""), v.get("detail", "")),
                               "sig": obj.get("sig"), "replay": ctx.replay_path})
    else:
        ctx.log("replayed case passes")
