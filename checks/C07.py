"""C07 -- shaping is safe, terminating, text-conserving and history-independent.

(i)  TLC checks the *total* semantics of Shaper.tla (malformed indices, empty replacements, rules with
     more nested actions than the budget, self-referential rules) for text conservation, stack
     discipline, empty stack at the end, the budget bound and termination (<>Done under fairness).
(ii) ShaperSafety.tla specifies a Context/Layouter as a function of (tables, input).  TLC generates
     call histories (all pairs, and long simulated ones) over a pool of inputs; the harness (cmd/c07)
     runs them on real reused gtab.Context and sfnt.Layouter objects, for tables built directly in every
     malformed shape, for catalogue and random tables, and for tables that gtab.Read accepts after
     single-word corruption of encoded tables; ShaperSafetyTrace.tla validates every recorded call:
     no panic, terminated, text conserved, length bound, result equal to the fresh-object result.
"""
import concurrent.futures
import json
import os
import random

import shaper_cat as sc
import vlib

LEVEL = "model_checking"
MANIFEST = {
    "text": "TLC checks the total (malformed-tolerant) semantics of Shaper.tla for conservation, stack discipline, "
            "budget and termination; ShaperSafety.tla states that a shaping object is a function of (tables, input); "
            "TLC-generated call histories are run on real reused Context/Layouter objects (and on NEW Layouters of a font "
            "with several language systems of one script) over built tables (every malformed shape, catalogue sample "
            "incl. cursive attachment, sibling filters, rewrites among trailing ignored glyphs; random tables) and over "
            "tables gtab.Read accepts after corruption of single words (all structural words, a sample of the rest); "
            "every recorded call is validated by TLC (ShaperSafetyTrace.tla): no panic, no hang, text conserved, "
            "length bound, same result as a fresh object.",
    "note": "Trusted: TLC, the harness's recover/watchdog/digest code, gtab.Info.Encode as the seed for corrupted "
            "tables. Non-termination is detected by a 20 s watchdog per call. Positioning data the library declares "
            "unimplemented (its documented 'not implemented' panic) is excluded as the property says. Liveness of the "
            "subjects is measured (mutants that still have lookups, calls that rewrote their input) and too low a share "
            "is an infrastructure error.",
    "technique": "TLC model checking of Shaper.tla total semantics (safety + liveness) and trace validation of recorded "
                 "Context/Layouter histories against ShaperSafetyTrace.tla",
}

FIXED_POOL = [[1], [1, 2], [2, 1], [1, 2, 1], [4, 1, 4, 2], [1, 4, 4, 2]]
# for the sibling-filter subjects: the two inputs exercise different nested lookups first
TRAIL_POOL = [[1, 4, 4], [1, 4, 5], [2, 1, 4, 4], [1, 4, 4, 2], [1, 4, 5, 2, 1, 4, 4], [4, 1, 4, 4, 4]]
SIB_POOL = [[1, 4, 1], [1, 5, 1], [2, 5, 2], [2, 4, 2], [1, 4, 1, 2, 5, 2], [2, 5, 2, 1, 4, 1]]


def _cfg_live(base):
    base = base.replace("INIT Init\nNEXT Next\n", "SPECIFICATION Spec\n")
    return base + "".join("INVARIANT %s\n" % i for i in
                          ["TextConserved", "StackOK", "StackEmptyAtEnd", "PosOK", "BudgetOK"]) + "PROPERTY Terminates\n"


def _split_cases(events):
    """[(start, end)] index ranges (0-based, end exclusive) of the cases in a trace."""
    starts = [i for i, e in enumerate(events) if e["ev"] == "reset"]
    return [(s, (starts[k + 1] if k + 1 < len(starts) else len(events))) for k, s in enumerate(starts)]


def _validate_all(ctx, events, label, rerun, maxiter=10):
    """Validate a trace; on rejection reproduce, report, drop the offending case and continue."""
    d = ctx.subdir("val")
    it = 0
    while events:
        it += 1
        path = os.path.join(d, "t%d.ndjson" % it)
        vlib.write_ndjson(path, events)
        ncases = sum(1 for e in events if e["ev"] == "reset")
        ok, line, res = ctx.validate_trace("ShaperSafetyTrace", path, label=label, traces=ncases, timeout=1500)
        ctx.cov["evaluations"] += len(events) if it == 1 else 0
        if ok:
            return
        if line is None:
            raise vlib.Infra("trace validation failed without a rejected line:\n" + res.error_text[-1500:])
        bad = events[line - 1]
        rng = [r for r in _split_cases(events) if r[0] <= line - 1 < r[1]]
        if not rng:
            raise vlib.Infra("rejected line %d outside any case: %s" % (line, bad))
        s, e = rng[0]
        head = events[s]
        rerun(head, bad, events[s:e])
        if it >= maxiter:
            ctx.notes.append("%s: stopped after %d rejected cases; the rest of this trace was not examined" % (label, it))
            return
        events = events[:s] + events[e:]


def _classify(bad, memo_known=True):
    if bad["ev"] == "readpanic":
        return "readpanic", "gtab.Read panicked: %s" % bad.get("msg")
    if bad.get("hung"):
        return "hang", "the call did not return within 20 s"
    if not bad.get("ok", True):
        return "panic", "panic: %s" % bad.get("msg")
    if not bad.get("cons", True):
        return "textloss", "text lost or duplicated"
    if bad["ev"] == "apply":
        return "history", "a reused object returned a different result than a fresh object"
    return "length", "output longer than the matched substitutions can produce"


def run(ctx):
    binp = ctx.build("c07")
    rng = random.Random(ctx.seed * 31 + 7)

    # (i) the design: total semantics, safety and liveness, on the malformed shapes
    mal = sc.build(["malformed"])
    mod, cfg = sc.render_module("ShaperMC", mal, [1, 2, 4], ctx.pick(4, 5))
    res = ctx.tlc("ShaperMC", cfg="ShaperMC.cfg", timeout=1500,
                  files={"ShaperMC.tla": mod, "ShaperMC.cfg": _cfg_live(cfg)},
                  label="Shaper total semantics (malformed family), safety + <>Done")
    if res.violated:
        raise vlib.Infra("Shaper.tla (total semantics) violates %s:\n%s" % (res.violated, res.error_text[:2000]))
    res = ctx.tlc("ShaperSafety", timeout=300, label="ShaperSafety object spec")
    if res.violated:
        raise vlib.Infra("ShaperSafety.tla violates %s" % res.violated)

    # histories from TLC: all pairs over (object, input), plus long simulated ones
    gen = open(os.path.join(vlib.SPEC_DIR, "ShaperSafetyGen.cfg")).read()
    h2 = ctx.tlc("ShaperSafety", cfg="g2.cfg", files={"g2.cfg": gen.replace("MaxHist = 10", "MaxHist = 2")},
                 timeout=300, label="ShaperSafety histories of length 2 (exhaustive)")
    hl = ctx.tlc("ShaperSafety", cfg="gl.cfg", files={"gl.cfg": gen.replace("MaxHist = 10", "MaxHist = 12")},
                 workers=1, simulate=ctx.pick(30, 300), depth=40, timeout=300,
                 label="ShaperSafety long histories (simulate)")
    hists = h2.cases + hl.cases
    if len(h2.cases) != 256 or not hl.cases:
        raise vlib.Infra("history generation failed: %d pairs, %d long" % (len(h2.cases), len(hl.cases)))
    d = ctx.subdir("c07")
    hpath = os.path.join(d, "hist.ndjson")
    vlib.write_ndjson(hpath, hists)
    ctx.sample({"history_from_TLC": hl.cases[0]})

    # subjects: all malformed shapes, a seeded sample of the well-formed families, random tables
    others = sc.build(["simple", "lig", "order", "ctx", "chain", "gpos"], deep=not ctx.quick())
    rng.shuffle(others)
    # ligature lookups with several candidates under a non-trivial filter are always included
    # (skipped-glyph bookkeeping is where text gets lost); the rest is a seeded sample
    def multi_lig(c):
        return c["family"] == "lig" and (c["ll"][0]["flags"] or c["ll"][0]["useSet"] or c["ll"][0]["attach"]) and \
            any(len(v) >= 2 for st in c["ll"][0]["subs"] if st["k"] == "lig" for _, v in st["m"])
    # nested contextual lookups (scratch buffers and stack entries are recycled between matches and calls):
    # every (parent format, child format, chained or not) combination, with a nested contextual action followed by an action on the first input glyph
    nest = [c for c in sc.build(["ctxnest"]) if [a["idx"] for a in c["ll"][0]["subs"][0]["rules"][0]["acts"]] == [2, 0]]
    # cursive attachment (GPOS 3) has no reference semantics in Shaper.tla (C06 does not quantify over it) but is
    # inside this property's quantifier: all of its shapes are always included
    # sibling nested lookups that differ only in the mark filtering set / attachment type (a filter remembered by
    # flag bits alone would make the result depend on which input came first)
    sib = [c for c in sc.build(["ctxfilt"]) if len(c["ll"]) == 3 and "mark" in c["ll"][0]["flags"]
           and c["ll"][1]["subs"][0]["k"] == "lig" and c["ll"][2]["subs"][0]["k"] == "lig"
           and c["ll"][1]["flags"] == c["ll"][2]["flags"]]
    # rewrites among the ignored glyphs that trail an outer match (its end has to follow): a sample; C06 runs all
    trail = sc.build(["ctxtrail"])[::5]
    # one subject for every lookup type and subtable format, GSUB and GPOS apart (the engine sees the type number:
    # 5/6 and 7/8 are the same code, 8 is a different one in each table), with and without a filter
    def sig(c):
        ks = []
        for L in c["ll"]:
            for st in L["subs"]:
                k = st["k"]
                if k == "ctx":
                    k = "%s%d" % ("chain" if st.get("chain") else "ctx", st.get("fmt", 3))
                ks.append(("P" if L.get("gpos") else "S") + k + ("f" if (L["flags"] or L["useSet"] or L["attach"]) else ""))
        return tuple(sorted(set(ks)))
    perkind, seen_sig = [], set()
    for c in others + sc.build(["block"]):
        new = [k for k in sig(c) if k not in seen_sig]
        if new:
            seen_sig.update(new)
            perkind.append(c)
    must = [c for c in others if multi_lig(c)] + nest + sc.build(["curs"]) + sib + trail
    must += [c for c in perkind if not any(c is m for m in must)]
    # the same subjects with every lookup of the list applied at the top level, in list order and the first one
    # again: whatever a contextual lookup leaves behind meets the lookups (and the calls) that follow
    for c in perkind:
        if len(c["ll"]) > 1:
            must.append(dict(c, order=list(range(1, len(c["ll"]) + 1)) + [1], family=c["family"] + "+all"))
    others = must + [c for c in others if not multi_lig(c) and not any(c is m for m in perkind)][:ctx.pick(45, 600)]
    rnd = [sc.random_case(rng, 0, 6) for _ in range(ctx.pick(40, 400))]
    cases = []
    for c0 in mal + others + rnd:
        c = dict(c0)
        c["id"] = len(cases) + 1
        pool = [list(p) for p in (SIB_POOL if any(c0 is x for x in sib) else
                                  TRAIL_POOL if any(c0 is x for x in trail) else FIXED_POOL)]
        # one medium random string and one of length 200 over the full glyph-id range
        pool.append([rng.choice([1, 2, 3, 4, 5, 6]) for _ in range(rng.randint(0, 40))])
        pool.append([rng.choice([1, 2, 3, 4, 5, 6, 1, 2, 4, 0, 7, 300, 65535]) for _ in range(200)])
        c["inputs"] = pool
        cases.append(c)
    byid = {c["id"]: c for c in cases}

    def rerun_history(head, bad, evs):
        c = byid[head["case"]]
        dd = ctx.subdir("re")
        cp = os.path.join(dd, "case.json")
        json.dump([c], open(cp, "w"))
        op = os.path.join(dd, "out.ndjson")
        # a dependence on map iteration order shows up with some probability only: several attempts
        for attempt in range(6):
            ctx.run([binp, "history", cp, hpath, op])
            ok, line, r = ctx.validate_trace("ShaperSafetyTrace", op, label="replay of one case", traces=0)
            if not ok:
                break
        if ok:
            raise vlib.Infra("rejection of case %d did not reproduce in isolation (6 attempts)" % c["id"])
        again = vlib.read_ndjson(op)[line - 1]
        kind, txt = _classify(again)
        subt = "+".join(sorted({st["k"] for L in c["ll"] for st in L["subs"]}))
        what = "%s | object %s, family %s, subtables %s, input %s | event %s" % (
            txt, {1: "gtab.Context", 2: "sfnt.Layouter",
                  3: "a NEW sfnt.Layouter on a font with several language systems of one script (the choice depends on map "
                     "iteration order)"}.get(again.get("obj"), "?"), c["family"], subt,
            c["inputs"][again["i"] - 1] if "i" in again else "?",
            json.dumps({k: v for k, v in again.items() if k not in ("case",)})[:300])
        ctx.violation(what, sig={"kind": kind, "site": again.get("site", ""), "family": c["family"]},
                      case={"mode": "history", "case": c, "event": again})

    step = 40
    first_sample = []
    live = {1: [0, 0], 2: [0, 0]}         # fresh calls / fresh calls that rewrote something, per object kind

    def hist_chunk(k):
        chunk = cases[k:k + step]
        cp = os.path.join(d, "cases%d.json" % k)
        json.dump(chunk, open(cp, "w"))
        op = os.path.join(d, "hist-out%d.ndjson" % k)
        ctx.run([binp, "history", cp, hpath, op], timeout=1200)
        evs = vlib.read_ndjson(op)
        if k == 0:
            first_sample.append(evs[1:4])
        for e in evs:
            if e["ev"] == "fresh" and e["obj"] in live:
                live[e["obj"]][0] += 1
                live[e["obj"]][1] += 1 if e.get("chg") else 0
        _validate_all(ctx, evs, "ShaperSafetyTrace: histories on built tables %d" % k, rerun_history)
        os.remove(op)

    pool_ex = concurrent.futures.ThreadPoolExecutor(max_workers=4)
    hfuts = [pool_ex.submit(hist_chunk, k) for k in range(0, len(cases), step)]

    # tables delivered by the binary reader after single-word corruption
    # stratified: the first case of every combination of subtable kinds (so that every reader path of every
    # subtable format is a subject in every run), then the rest in order
    def kinds(c):
        return tuple(sorted({"%s%s%s" % (st["k"], st.get("fmt", ""), "c" if st.get("chain") else "")
                             for L in c["ll"] for st in L["subs"]}))
    # one subject per single subtable kind/format from the whole catalogue (whatever the seeded sample above
    # contains), with inputs on which every kind of subtable gets to act
    MPOOL = [[1, 2, 1, 1], [4, 1, 4, 2, 5, 4], [1, 4, 5, 5, 2, 1]]
    whole = sc.build(["simple", "lig", "ctx", "chain", "gpos", "curs", "ctxnest"])
    firsts, seen = [], set()
    for c in sorted(whole, key=lambda c: len(json.dumps(c["ll"]))):
        for k in kinds(c):
            if k not in seen:
                seen.update(kinds(c))
                c = dict(c, id=5000 + len(firsts), inputs=[list(p) for p in MPOOL])
                firsts.append(c)
                break
    nonrnd = [dict(c, inputs=c["inputs"][:3]) for c in cases if c["family"] != "random"]
    mcases = (firsts + nonrnd)[:len(firsts) + ctx.pick(25, 250)]
    bym = {c["id"]: c for c in mcases}

    def rerun_mutant(head, bad, evs):
        cid = head["case"] // 100000
        c = bym[cid]
        dd = ctx.subdir("rem")
        cp = os.path.join(dd, "case.json")
        json.dump([c], open(cp, "w"))
        op = os.path.join(dd, "out.ndjson")
        ctx.run([binp, "mutants", cp, op, str(maxw)])
        again = [e for e in vlib.read_ndjson(op) if e.get("case") == head["case"]]
        cand = [e for e in again if e["ev"] == bad["ev"] and e.get("i") == bad.get("i") and e.get("dig") == bad.get("dig")
                and e.get("ok") == bad.get("ok") and e.get("cons") == bad.get("cons")]
        if not cand:
            raise vlib.Infra("rejected mutant event did not reproduce: %s" % json.dumps(bad)[:300])
        kind, txt = _classify(bad)
        what = "%s | tables read by gtab.Read from a corrupted encoding (%s), family %s, input %s | event %s" % (
            txt, head.get("tag"), c["family"], c["inputs"][bad["i"] - 1] if "i" in bad else "?",
            json.dumps({k: v for k, v in bad.items() if k != "case"})[:300])
        ctx.violation(what, sig={"kind": kind, "site": bad.get("site", ""), "family": "mutant"},
                      case={"mode": "mutants", "case": c, "tag": head.get("tag"), "event": bad})

    maxw = ctx.pick(25, 120)
    NSH = 4
    totals = {"mutants": 0, "accepted": 0, "live": 0, "skipped": 0, "shards_completed": 0, "shards": 0}
    nrp = []

    def mut_shard(k):
        shard = mcases[k::NSH]
        if not shard:
            return
        totals["shards"] += 1
        mp = os.path.join(d, "mcases%d.json" % k)
        json.dump(shard, open(mp, "w"))
        mo = os.path.join(d, "mut-out%d.ndjson" % k)
        ctx.run([binp, "mutants", mp, mo, str(maxw)], timeout=1500)
        evs = vlib.read_ndjson(mo)
        os.remove(mo)
        for e in evs:
            if e["ev"] == "mutsummary":
                totals["shards_completed"] += 1
                totals["mutants"] += e["mutants"]
                totals["accepted"] += e["accepted"]
                totals["live"] += e.get("live", 0)
                totals["skipped"] += e.get("skipped", 0)
        # reader panics are C02's subject: recorded, not judged here
        nrp.extend(e for e in evs if e["ev"] == "readpanic")
        evs = [e for e in evs if e["ev"] != "readpanic"]
        CH = 60000
        k0 = 0
        while k0 < len(evs):
            part = evs[k0:k0 + CH]
            # do not split a case: extend to the next reset
            while k0 + len(part) < len(evs) and evs[k0 + len(part)]["ev"] not in ("reset", "mutsummary"):
                part.append(evs[k0 + len(part)])
            k0 += len(part)
            _validate_all(ctx, part, "ShaperSafetyTrace: reader-delivered corrupted tables", rerun_mutant, maxiter=8)

    mfuts = [pool_ex.submit(mut_shard, k) for k in range(NSH)]
    for f in hfuts + mfuts:
        f.result()
    pool_ex.shutdown()
    if first_sample:
        ctx.sample({"recorded_events": first_sample[0]})
    ctx.cov["fresh_calls_that_rewrote_the_input"] = {"gtab.Context": "%d of %d" % (live[1][1], live[1][0]),
                                                     "sfnt.Layouter": "%d of %d" % (live[2][1], live[2][0])}
    if not ctx.violations and (live[1][1] * 10 < live[1][0] or live[2][1] * 10 < live[2][0]):
        raise vlib.Infra("shaping objects are vacuous subjects: %s" % ctx.cov["fresh_calls_that_rewrote_the_input"])
    ctx.cov["mutants"] = dict(totals, ev="mutsummary")
    # a harness process ends at the first call that hangs (the call is recorded and judged above); the liveness
    # counts are only meaningful when every shard ran to its end
    if totals["shards_completed"] < totals["shards"]:
        ctx.notes.append("%d of %d mutant shards ended early at a hanging call" % (
            totals["shards"] - totals["shards_completed"], totals["shards"]))
    elif totals["live"] * 4 < totals["accepted"] or not totals["live"] or totals["skipped"] * 4 > len(mcases):
        raise vlib.Infra("reader-delivered tables are vacuous: only %d of %d accepted mutants have lookups, %d of %d "
                         "subjects do not read back unmutated" % (totals["live"], totals["accepted"], totals["skipped"], len(mcases)))
    if nrp:
        ctx.notes.append("%d corrupted tables made gtab.Read panic (C02's subject), e.g. %s" % (len(nrp), nrp[0].get("site")))

    ctx.cov["distinct_nontrivial"] = len(cases) * len(hists) + int((ctx.cov.get("mutants") or {}).get("live", 0))
    ctx.cov["rule"] = ("one case = (tables, call history); tables: %d built (malformed shapes, catalogue sample, random) x "
                       "%d TLC-generated histories (all 256 pairs over 2 objects x 8 inputs + simulated long ones) + "
                       "reader-accepted single-word mutants that still have lookups x all input pairs; evaluations = recorded calls validated "
                       "by TLC" % (len(cases), len(hists)))
    ctx.cov["bounds"] = {"pool": 8, "history_pairs": 256, "long_histories": len(hl.cases), "built_tables": len(cases),
                         "mutant_words_per_table": maxw}
    ctx.assumptions += ["a hang is a call that does not return within 20 s",
                        "objects that panicked are not reused (their state is unspecified)"]


def replay(ctx, obj):
    binp = ctx.build("c07")
    c = obj["case"]
    d = ctx.subdir("rp")
    cp = os.path.join(d, "case.json")
    json.dump([c["case"]], open(cp, "w"))
    op = os.path.join(d, "out.ndjson")
    if c["mode"] == "history":
        gen = open(os.path.join(vlib.SPEC_DIR, "ShaperSafetyGen.cfg")).read()
        h2 = ctx.tlc("ShaperSafety", cfg="g2.cfg", files={"g2.cfg": gen.replace("MaxHist = 10", "MaxHist = 2")}, timeout=300)
        hp = os.path.join(d, "hist.ndjson")
        vlib.write_ndjson(hp, h2.cases)
        ctx.run([binp, "history", cp, hp, op])
    else:
        ctx.run([binp, "mutants", cp, op, "120"])
    evs = [e for e in vlib.read_ndjson(op) if e["ev"] != "readpanic"]
    p2 = os.path.join(d, "t.ndjson")
    vlib.write_ndjson(p2, evs)
    ok, line, r = ctx.validate_trace("ShaperSafetyTrace", p2, traces=0)
    if not ok and line:
        bad = evs[line - 1]
        kind, txt = _classify(bad)
        ctx.violation("replayed: " + txt, sig={"kind": kind, "site": bad.get("site", "")}, case=c)
