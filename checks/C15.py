"""C15 -- end-to-end layout composes cmap, feature selection, widths and kerning.

1. TLC, exhaustive on small menus: LayoutPipe.tla (fonts assembled table by table, then
   NewLayouter / the four stages of Layout / FindLookups) satisfies: selection results are
   ascending, duplicate-free, in range and contain the required feature (all script lists with
   <= 3 language systems); text is conserved by every stage; widths are assigned between GSUB
   and GPOS and not to marks; the staged pipeline equals the functional definition and inert
   rule sets give the identity mapping; equal calls give equal answers; the kern fold.
2. TLC -simulate generates cases from the same state machine with large menus: fonts x
   strings x language tags x switch maps; script lists with 1..20 language systems x request
   tags x switches; kern tables (pair sets x flag combinations).
3. The harness (harness/cmd/c15) realises every case with the real library (in memory, or as
   a file that is written, given a hand-built kern table, and read back), calls
   FindLookups 100x in-process and in 3 fresh processes, NewLayouter 12x + Layout, and records
   the distinct answers.  Seeded random cases beyond the menus are recorded the same way.
4. Every recorded call is accepted or rejected by TLC against LayoutPipeTrace.tla.  A rejected
   case is re-recorded alone and re-validated before it is reported, and classified with the
   lax variant of the trace specification (unstable choice / wrong result).
"""
import json
import os
import threading

import vlib

LEVEL = "model_checking"
MANIFEST = {
    "text": "TLC exhaustively checks LayoutPipe.tla (cmap -> GSUB -> widths -> GPOS as four actions, NewLayouter, "
            "FindLookups, fonts assembled from menus incl. kern folding and standard ligatures) on small menus: "
            "selection sorted/distinct/in-range/required-included for all script lists with <= 3 language systems, "
            "text conservation, stage order, staged = functional definition, identity on inert rule sets, equal "
            "calls equal answers. TLC-generated cases (script lists with 1..20 language systems, kern flag "
            "combinations, fonts x strings x tags x switch maps) and seeded random cases are executed on the real "
            "library (FindLookups 100x in-process + fresh processes, NewLayouter/Layout on in-memory and re-read "
            "fonts, kern-only files assembled with header functions) and every recorded call is accepted or "
            "rejected by TLC against LayoutPipeTrace.tla.",
    "note": "Trusted: TLC, the font builders of the harness, the JSON trace encoding. Lookups: GSUB 1, 2, 4, GPOS 1, 2 (glyph "
            "pairs and class pairs), 4, with the flags IgnoreBaseGlyphs/IgnoreLigatures/IgnoreMarks over GDEF classes, "
            "semantics of DESIGN.md appendix A; contextual lookups, mark filtering sets and attachment types are C06/C07. The property does not say which language system "
            "a tag selects: any is accepted, but it must be one (same answer on every call, in every process). "
            "minimum+override kern subtables (bounded from below / replaced) and switching off the synthetic liga feature: either reading is accepted, but one reading for the whole run. "
            "A file without GSUB whose non-zero widths are all equal may or may not get ligatures (one answer per file); two "
            "different non-zero widths anywhere (glyph 0 and the last glyph included) make it proportional. A cmap subtable in "
            "format 2/8/10/13/14 or breaking a rule of its format counts as undecodable: the best DECODABLE subtable is used. "
            "Re-read fonts are also stored with GSUB/GPOS tables re-laid by the harness (permuted, shared, gapped storage).",
    "technique": "TLA+ model checking (TLC) of LayoutPipe.tla + trace validation of recorded FindLookups / "
                 "NewLayouter / Layout calls against LayoutPipeTrace.tla",
}

MC = "LayoutPipeMC"
TRACE = "LayoutPipeTrace"


def _cfg(name, repl=()):
    text = open(os.path.join(vlib.SPEC_DIR, name)).read()
    for a, b in repl:
        if a not in text:
            raise vlib.Infra("cfg %s has no line %r" % (name, a))
        text = text.replace(a, b)
    return text


def _parallel(jobs):
    """Run callables in threads; re-raise the first exception."""
    res = [None] * len(jobs)
    errs = []

    def wrap(i, f):
        try:
            res[i] = f()
        except BaseException as ex:  # noqa
            errs.append(ex)

    ts = [threading.Thread(target=wrap, args=(i, f)) for i, f in enumerate(jobs)]
    for t in ts:
        t.start()
    for t in ts:
        t.join()
    if errs:
        for e in errs:
            if isinstance(e, vlib.Infra):
                raise e
        raise errs[0]
    return res


def _lock_subdir(ctx):
    # ctx.subdir() is not thread safe (local workaround, vlib is not ours to change)
    if getattr(ctx, "_c15_locked", False):
        return
    lock = threading.Lock()
    orig = ctx.subdir

    def subdir(name=None):
        with lock:
            return orig(name)

    ctx.subdir = subdir
    ctx._c15_locked = True


# ---------------------------------------------------------------------------------------------
def _model_check(ctx):
    q = ctx.quick()
    w = max(2, ctx.workers // 3)
    runs = [
        ("XL", "LayoutPipeXL.cfg",
         [("PlanMenu <- XLPlanMenu\n", "PlanMenu <- XLPlanMenuQ\n"), ("ReqPool <- XLReqPool\n", "ReqPool <- XLReqPoolQ\n"),
          ("SwMenuG <- XLSwMenuG\n", "SwMenuG <- XLSwMenuGQ\n"), ("Chars <- XLChars\n", "Chars <- XLCharsQ\n"),
          ("GsubMenu <- XLGsubMenu\n", "GsubMenu <- XLGsubMenuQ\n"), ("GposMenu <- XLGposMenu\n", "GposMenu <- XLGposMenuQ\n"),
          ("LkMenu <- XLLkMenu\n", "LkMenu <- XLLkMenuQ\n")] if q else [],
         "layout pipeline, all fonts of the small menus"),
        ("XF", "LayoutPipeXF.cfg",
         [("FeatTagsG <- XFFeatTags\n", "FeatTagsG <- XFFeatTagsQ\n")] if q
         else [("PlanMenu <- XFPlanMenu\n", "PlanMenu <- XFPlanMenuT\n")],
         "feature selection, all script lists with <= %d language systems" % (2 if q else 3)),
        ("XK", "LayoutPipeXK.cfg",
         [("FlagMenu <- XKFlagMenu\n", "FlagMenu <- XKFlagMenuQ\n"), ("PairsMenu <- XKPairsMenu\n", "PairsMenu <- XKPairsMenuQ\n"),
          ("Chars <- XKChars\n", "Chars <- XKCharsQ\n")] if q
         else [("PlanMenu <- XKPlanMenu\n", "PlanMenu <- XKPlanMenuT\n"), ("PairsMenu <- XKPairsMenu\n", "PairsMenu <- XKPairsMenuQ\n"),
               ("FlagMenu <- XKFlagMenu\n", "FlagMenu <- XKFlagMenuT\n")],
         "kern fold, all flag combinations x pair sets"),
    ]

    def job(tag, cfgname, repl, label):
        def f():
            name = "c15-%s.cfg" % tag
            r = ctx.tlc(MC, cfg=name, files={name: _cfg(cfgname, repl)}, workers=w,
                        timeout=ctx.pick(1500, 3000), label="LayoutPipe exhaustive: " + label)
            if not r.ok:
                raise vlib.Infra("LayoutPipe.tla (%s) violates %s on the model -- the spec is wrong, not the code:\n%s"
                                 % (cfgname, r.violated, r.error_text[:1500]))
            return r
        return f

    return [job(*r) for r in runs]


def _generate(ctx, out):
    q = ctx.quick()
    plan = [("GL", "LayoutPipeGL.cfg", ctx.pick(110, 1500), "layout"),
            ("GF", "LayoutPipeGF.cfg", ctx.pick(70, 900), "find"),
            ("GK", "LayoutPipeGK.cfg", ctx.pick(50, 500), "kern")]
    jobs = []
    for tag, cfg, total, kind in plan:
        nproc = 1 if q else 4
        for k in range(nproc):
            def f(tag=tag, cfg=cfg, n=(total + nproc - 1) // nproc, k=k, kind=kind):
                r = ctx.tlc(MC, cfg=cfg, workers=1, simulate=n, depth=400, timeout=ctx.pick(1500, 3000),
                            seed=ctx.seed * 31 + k, label="LayoutPipe generation (%s, simulate)" % kind)
                if r.violated:
                    raise vlib.Infra("generation run %s violated %s:\n%s" % (cfg, r.violated, r.error_text[:1500]))
                if len(r.cases) < n // 3:
                    raise vlib.Infra("generation %s produced only %d of %d cases" % (cfg, len(r.cases), n))
                out.setdefault(kind, []).extend(r.cases)
                return r
            jobs.append(f)
    return jobs


# ---------------------------------------------------------------------------------------------
def _nontrivial(events):
    """Measured: distinct (font, request) pairs whose answer shows an effect of a rule / a choice."""
    seen = set()
    font = None
    fkey = ""
    for e in events:
        if e["ev"] == "reset":
            font = e["font"]
            fkey = json.dumps(font, sort_keys=True)
        elif e["ev"] == "find":
            tab = font["gsub"] if e["tab"] == "GSUB" else font["gpos"]
            if e["results"] and e["results"][0] and len(tab["sl"]) >= 1:
                seen.add(hash((fkey, "f", e["tab"], e["lang"]["tag"], tuple(e["on"]))))
        elif e["ev"] == "layout" and e["outs"]:
            cm = {}
            for key in ((3, 10), (0, 4), (3, 1), (0, 3)):      # (coverage counting only, no verdict)
                subs = [st for st in font["cm"] if (st["p"], st["e"]) == key and st["ok"]]
                if subs:
                    cm = dict((c, g) for c, g in subs[0]["m"])
                    break
            marks = set(font["marks"])
            eff = len(e["outs"][0]) != len(e["s"])
            for it in e["outs"][0]:
                w = 0 if it["g"] in marks else font["widths"][it["g"]]
                if len(it["t"]) != 1 or it["a"] != w or it["x"] != 0 or cm.get(it["t"][0], 0) != it["g"]:
                    eff = True
            if eff:
                seen.add(hash((fkey, "l", e["lang"]["tag"], json.dumps([e["swg"], e["swp"], e["s"]]))))
    return seen


def _describe(case, bad, cls):
    f = case["font"]
    small = {k: v for k, v in bad.items() if k not in ("font",)}
    txt = json.dumps(small)
    if len(txt) > 900:
        txt = txt[:900] + "..."
    if cls == "unstable-choice":
        head = ("identical calls give different answers (the language system is not a function of the request): "
                "%d distinct answers" % len(bad.get("results", bad.get("outs", []))))
    else:
        head = "the answer is not the one the pipeline specification allows for any language system choice"
    tabs = []
    for nm in ("gsub", "gpos"):
        if f[nm]["present"]:
            tabs.append("%s script list %s" % (nm.upper(), [ls["tag"] for ls in f[nm]["sl"]]))
    if f["kern"]["present"]:
        tabs.append("kern subtables %s" % json.dumps(f["kern"]["subs"])[:300])
    return "%s; %s; event %s" % (head, "; ".join(tabs) or "no layout tables in the file", txt)


def _replay_case(ctx, case, tries=4):
    """Re-record one case alone and validate it alone; report if it is rejected again."""
    binp = ctx.build("c15")
    for attempt in range(tries):
        d = ctx.subdir("replay")
        cp = os.path.join(d, "case.json")
        json.dump(case, open(cp, "w"))
        tp = os.path.join(d, "trace.ndjson")
        ctx.run([binp, "one", cp, tp])
        ok, line, res = ctx.validate_trace(TRACE, tp, label="replay of one case (strict)", traces=0)
        if ok:
            continue            # the instability of a choice shows only with some probability
        if line is None:
            raise vlib.Infra("trace validation of a replay failed without a rejected line:\n" + res.error_text[-1500:])
        events = vlib.read_ndjson(tp)
        bad = events[line - 1]
        if bad["ev"] == "xkern":
            raise vlib.Infra("apparatus check failed: golang.org/x/image reads another value from the hand-built "
                             "kern table than the specification (%s)" % json.dumps(bad))
        lok, lline, _ = ctx.validate_trace(TRACE, tp, cfg="LayoutPipeTraceLax.cfg",
                                           label="replay of one case (lax: classification)", traces=0)
        cls = "unstable-choice" if (lok or (lline or 0) > line) else "wrong-result"
        api = "FindLookups" if bad["ev"] == "find" else "NewLayouter/Layout"
        sig = {"class": cls, "api": api, "kind": case.get("kind"), "panic": str(bad.get("err", "")).startswith("panic")}
        ctx.violation("C15 %s (%s case): %s" % (api, case.get("kind"), _describe(case, bad, cls)), sig=sig, case=case)
        return cls
    # The readings of the points the property leaves open are traits of the implementation and are
    # narrowed over the whole trace: a case may be inexplicable only under the reading that earlier
    # files of the run have fixed.  Re-record it once more and validate it after those files.
    context = case.get("_context") or []
    if context:
        d = ctx.subdir("replay")
        cp = os.path.join(d, "case.json")
        json.dump(case, open(cp, "w"))
        tp = os.path.join(d, "trace.ndjson")
        ctx.run([binp, "one", cp, tp])
        new = vlib.read_ndjson(tp)
        vlib.write_ndjson(tp, context + new)
        ok, line, res = ctx.validate_trace(TRACE, tp, label="replay of one case after its context (strict)", traces=0)
        if not ok and line is not None and line > len(context):
            bad = new[line - len(context) - 1]
            cls = "inconsistent-reading"
            api = "FindLookups" if bad["ev"] == "find" else "NewLayouter/Layout"
            sig = {"class": cls, "api": api, "kind": case.get("kind"), "panic": False}
            what = ("C15 %s (%s case): the answer can only be explained by reading an open point of the property "
                    "(switching off the synthetic liga feature / minimum+override kern subtables) differently than the "
                    "answers for %d earlier file(s) of the same run demand - or, under the one reading, it is wrong; %s"
                    % (api, case.get("kind"), sum(1 for e in context if e["ev"] == "reset"),
                       _describe(case, bad, "wrong-result")))
            ctx.violation(what, sig=sig, case=case)
            return cls
        if not ok and line is None:
            raise vlib.Infra("trace validation of a replay failed without a rejected line:\n" + res.error_text[-1500:])
    ctx.notes.append("a rejected case (kind %s) did not reproduce in %d isolated re-recordings" % (case.get("kind"), tries))
    raise vlib.Infra("rejection of a %s case did not reproduce in isolation" % case.get("kind"))


def _context(events, cid):
    """The earlier cases of the trace that can fix a reading: files without GSUB, or with a kern table only."""
    out = []
    keep = False
    for e in events:
        if e.get("case") == cid:
            break
        if e["ev"] == "reset":
            f = e["font"]
            keep = bool(f["read"]) and (not f["gsub"]["present"] or (f["kern"]["present"] and not f["gpos"]["present"]))
        if keep:
            out.append(e)
    return out


def _validate_file(ctx, trace, label, stats):
    """Validate one trace file; on rejection replay the case, drop it, continue (bounded)."""
    cases = {c["id"]: c for c in vlib.read_ndjson(trace + ".cases")}
    events = vlib.read_ndjson(trace)
    stats["events"] += len(events)
    stats["nontrivial"] |= _nontrivial(events)
    cfg = None
    path = trace
    rounds = 0
    while True:
        n = len(set(e["case"] for e in events))
        ok, line, res = ctx.validate_trace(TRACE, path, cfg=cfg, label=label + (" (lax)" if cfg else ""), traces=n,
                                           timeout=ctx.pick(1500, 3000))
        if ok:
            return
        if line is None:
            raise vlib.Infra("trace validation failed without a rejected line:\n" + res.error_text[-2000:])
        bad = events[line - 1]
        cid = bad.get("case")
        if cid not in cases:
            raise vlib.Infra("rejected line %d has no case" % line)
        case = dict(cases[cid])
        case["_context"] = _context(events, cid)
        cls = _replay_case(ctx, case)
        rounds += 1
        if rounds >= 4:
            ctx.notes.append("%s: stopped after %d reproduced violations" % (label, rounds))
            return
        # go on without that case; once an unstable choice is known, look only for wrong results
        events = [e for e in events if e.get("case") != cid]
        if cls == "unstable-choice":
            cfg = "LayoutPipeTraceLax.cfg"
        path = trace + ".rest%d" % rounds
        vlib.write_ndjson(path, events)
        if not events:
            return


def _intended(ctx, trace):
    """Diagnostic only: how often the choice differs from the one OpenType intends."""
    cases = vlib.read_ndjson(trace + ".cases")
    evs = [e for e in vlib.read_ndjson(trace) if e["ev"] == "find"]
    k = 0
    dev = tot = 0
    for c in cases:
        for call in c["calls"]:
            if call["op"] != "find":
                continue
            e = evs[k]
            k += 1
            want = call.get("want")
            if want and want != [-1] and len(e["results"]) == 1:
                tot += 1
                if e["results"][0] != want:
                    dev += 1
    if tot:
        ctx.notes.append("diagnostic (no verdict): in %d of %d stable FindLookups answers the language system is not "
                         "the one OpenType intends (exact tag, else script default, else DFLT)" % (dev, tot))


def _run_batch(ctx, argv, **kw):
    """ctx.run for the case runner.  The runner lays out separate fonts in separate goroutines; a Go runtime abort
    'concurrent map writes/read' inside go-sfnt then means that the library writes to package-level state shared by
    all fonts (every goroutine owns its font, its layouter and its switch maps).  It is reproduced once and reported;
    any other breakdown stays an infrastructure failure.  Returns False when the batch was lost this way."""
    try:
        ctx.run(argv, **kw)
        return True
    except vlib.Infra as ex:
        txt = str(ex)
        if "fatal error: concurrent map" not in txt or "seehuhn.de/go/sfnt" not in txt:
            raise
        for attempt in range(3):
            try:
                ctx.run(argv, **kw)
            except vlib.Infra as ex2:
                if "fatal error: concurrent map" in str(ex2) and "seehuhn.de/go/sfnt" in str(ex2):
                    frames = [l.strip() for l in str(ex2).splitlines() if "seehuhn.de/go/sfnt" in l and "(" in l][:3]
                    ctx.violation("laying out SEPARATE fonts in separate goroutines aborts the process with a Go runtime "
                                  "'concurrent map' error inside go-sfnt: the library writes to package-level state that "
                                  "every layout shares (results then depend on the calls made before); frames: %s"
                                  % "; ".join(frames), sig={"kind": "shared-package-state"}, case={"argv": argv[1:]})
                    return False
                raise
        raise


def run(ctx):
    _lock_subdir(ctx)
    ctx.assumptions += [
        "lookups: GSUB single/multiple/ligature, GPOS single, pair (glyph and class based, class 0 included), mark-to-base, "
        "with IgnoreBaseGlyphs/IgnoreLigatures/IgnoreMarks; semantics of DESIGN.md appendix A (a multiple substitution leaves "
        "the text on the first glyph; glyphs skipped inside a ligature move behind it; the base of a mark is the nearest "
        "preceding glyph of the base coverage); contextual lookups, filtering sets, attachment types are left to C06/C07",
        "feature selection is a function of the meaning of a table: the in-memory table, the library's encoding read back "
        "and two re-stored files (layx.Relayout: shared language-system / script / feature tables) answer one request and "
        "must agree",
        "post.isFixedPitch, the PANOSE proportion digit and numberOfHMetrics are redundant: files with these fields set "
        "against the widths must lay out as the widths say",
        "the property does not say which language system a request tag selects: every choice is accepted, but it must "
        "be the same for every call with that tag (in-process, new layouters, fresh processes)",
        "minimum+override kern subtables: the OpenType text admits 'bounded from below' and 'replaced'; either is accepted "
        "but one reading must explain every pair of every file of a run; the synthetic liga feature of a font without GSUB may "
        "be required or optional; a file without GSUB whose non-zero widths are all equal (fixed pitch by the code, and by "
        "the documented rule if no width is 0) may or may not get ligatures, one answer per file",
        "usable full-Unicode cmap subtables (3,10)/(0,4) carry one mapping, usable BMP subtables (3,1)/(0,3) another: only "
        "'full Unicode before BMP' is demanded; a subtable of format 2/8/10/13/14 (not implemented) or violating a rule of "
        "format 0/4/6/12 is undecodable and must not hide a usable subtable of lower rank",
        "layx.Relayout (harness) re-stores GSUB/GPOS with the same meaning; what is read from it is judged by the case's "
        "description of the tables, not by the library's own round trip",
        "advance widths, kerning values and glyph ids are small integers (no int16 overflow)",
    ]
    binp = ctx.build("c15")
    gen = {}
    # the exhaustive runs go on in the background while cases are generated, executed and validated
    mc_err = []

    skip_mc = bool(os.environ.get("VERIF_C15_SKIP_MC"))   # development only (mutation runs on a loaded machine)

    def mc():
        try:
            if not skip_mc:
                _parallel(_model_check(ctx))
        except BaseException as ex:  # noqa
            mc_err.append(ex)

    mct = threading.Thread(target=mc)
    mct.start()
    try:
        _run_cases(ctx, binp, gen)
    finally:
        mct.join()
    if mc_err:
        raise mc_err[0]
    ctx.cov["exhaustive"] = not skip_mc
    if skip_mc:
        ctx.notes.append("VERIF_C15_SKIP_MC set: the exhaustive TLC runs were skipped (development run)")
    ctx.cov["bounds"] = {
        "exhaustive": "layout: every font of the small menus (2 cmap variants, with/without GDEF marks, GSUB of <= %d lookups "
                      "from a menu of 3, or GPOS of 1 lookup from a menu of 2, 1 feature, 1 language system; in memory and "
                      "re-read), every string of <= 2 characters out of %d, every request/switch combination of the menus; "
                      "feature selection: all script lists with <= %d language systems (3 tags, 3 required x 3 optional "
                      "choices each) x 2-feature lists x 2 request tags x 3 switch sets x 2 calls; kern: all tables of <= %d "
                      "subtables x 5 flag combinations x 2-3 pair sets, all 2-character strings"
                      % ((1, 4, 2, 2) if ctx.quick() else (2, 5, 3, 3)),
        "generated": "script lists with 1..20 language systems of a pool of 30 tags, 8 features, 6 lookups; fonts with "
                     "<= 4 GSUB and <= 3 GPOS lookups, strings <= 6 over 10 characters; kern tables with 1..4 subtables; "
                     "random cases: <= 20 language systems, <= 12 features, strings <= 10",
    }


def _run_cases(ctx, binp, gen):
    _parallel(_generate(ctx, gen))
    for kind in ("layout", "find", "kern"):
        if not gen.get(kind):
            raise vlib.Infra("no %s cases generated" % kind)
    d = ctx.subdir("c15")
    stats = {"events": 0, "nontrivial": set()}
    files = []
    for kind in ("layout", "find", "kern"):
        cp = os.path.join(d, "tlc-%s.ndjson" % kind)
        vlib.write_ndjson(cp, gen[kind])
        tp = os.path.join(d, "trace-%s.ndjson" % kind)
        if _run_batch(ctx, [binp, "run", cp, tp], timeout=1800):
            files.append((tp, "LayoutPipeTrace: TLC-generated %s cases" % kind))
        ctx.sample({"tlc_case_" + kind: gen[kind][0]})
    # the fixed boundary cases of every run (lengths 0/1/2, shrinking and growing GSUB, GPOS single
    # adjustment, minimum+override kern values below and above the accumulated value)
    cp = os.path.join(d, "directed.ndjson")
    ctx.run([binp, "directed", "0", cp])
    tp = os.path.join(d, "trace-directed.ndjson")
    if _run_batch(ctx, [binp, "run", cp, tp], timeout=1800):
        files.append((tp, "LayoutPipeTrace: directed boundary cases"))
    nrand = ctx.pick(90, 1500)
    chunk = 300
    k = 0
    while k * chunk < nrand:
        n = min(chunk, nrand - k * chunk)
        cp = os.path.join(d, "rand%d.ndjson" % k)
        env = {"VERIF_SEED": str(ctx.seed * 1000 + k)}
        ctx.run([binp, "random", str(n), cp], env=env)
        tp = os.path.join(d, "trace-rand%d.ndjson" % k)
        if _run_batch(ctx, [binp, "run", cp, tp], env=env, timeout=1800):
            files.append((tp, "LayoutPipeTrace: random cases %d" % k))
        k += 1
    if not files:
        return          # every batch ended in a reproduced runtime abort (reported above)
    evs = vlib.read_ndjson(files[0][0])
    for e in evs[1:3]:
        ctx.sample({"recorded_event": e})
    _parallel([(lambda tp=tp, label=label: _validate_file(ctx, tp, label, stats)) for tp, label in files])
    if len(files) > 1:
        _intended(ctx, files[1][0])
    ctx.cov["evaluations"] += stats["events"]
    ctx.cov["distinct_nontrivial"] = len(stats["nontrivial"])
    ctx.cov["rule"] = ("distinct (font, request) pairs whose recorded answer shows an effect: a non-empty lookup "
                       "selection, or a layout that differs from the identity mapping (substitution, ligature, kerning, "
                       "placement, unmapped character, mark without advance); evaluations = recorded events validated "
                       "by TLC (each = 100 FindLookups calls + 3 processes, or 12 layouters)")


def replay(ctx, obj):
    _lock_subdir(ctx)
    _replay_case(ctx, obj["case"])
