"""C20 -- generated glyph names are complete, unique, stable and PostScript-safe.

1. TLC, exhaustive on tiny instances: Names.tla enumerates every font description of a bounded
   family (given names from a pool of colliding names x cmap x GSUB 1/3/4 rules x length of the
   TrueType names list) and checks that two deliberately different reference completions satisfy
   every clause of NamesLaw.tla (the clauses are jointly satisfiable and do not single out one
   algorithm), that installing a result and asking again returns it, and that wrong answers are
   refused.  NamesPS.tla does the same for the PostScript name.
2. R: TLC (-simulate on the 6-glyph family, exhaustive for the PostScript name) prints the
   descriptions; the harness builds each font with the real library (TrueType, simple CFF,
   CID-keyed CFF), calls MakeGlyphNames 20 times in one process and again in fresh processes,
   EnsureGlyphNames + GlyphName, MakeSimple, PostScriptName, and records the answers.
3. V: TLC judges every recorded answer with NamesTrace.tla (clauses of NamesLaw per answer,
   agreement of all answers of one font).  One case per failure class is re-recorded in isolation
   and re-judged before it is reported.
"""
import concurrent.futures
import json
import os

import vlib

LEVEL = "model_checking"
MANIFEST = {
    "text": "TLC exhaustively checks on all tiny font descriptions (<= 3-4 glyphs, colliding given names, cmap, "
            "GSUB 1/3/4 rules, short names lists) that the clauses of NamesLaw.tla (length, non-empty, distinct, "
            ".notdef first, unique valid names kept, glyph-list / variant / ligature names before placeholders) are "
            "jointly satisfied by two different reference completions and refuse wrong answers; TLC then generates "
            "font descriptions of up to 6 glyphs and PostScript-name inputs, the real library is run on each (20 calls "
            "in-process, several fresh processes, install + read back, MakeSimple), and every recorded answer is judged "
            "by TLC against NamesTrace.tla, including agreement of all answers for one font.",
    "note": "Trusted: TLC, the font builders of the harness, the JSON encoding (names as byte lists). The law accepts "
            "both readings where the property is silent (invalid names kept or replaced, a short TrueType names list "
            "used or ignored, fi/ij named as ligature or decomposed, cmap or GSUB source for an inferred name). "
            "Glyph-list names are checked for 9 code points only. Dedicated generation runs cover k-way name collisions, "
            "ligature sets with ligatures abandoned at any component, and cmap formats 4/12/6/0 (Unicode and Mac) with BMP and astral codes.",
    "technique": "TLA+ model checking (TLC) of Names.tla/NamesPS.tla + trace validation of recorded "
                 "MakeGlyphNames/EnsureGlyphNames/MakeSimple/PostScriptName answers against NamesTrace.tla",
}

CHUNK = 3000          # at most this many cases per trace-validation run
CODES_FULL = "{32, 65, 66, 105, 106, 160, 307, 545}"


# ----------------------------------------------------------------------------- helpers
def _s(b):
    return bytes(b).decode("latin1")


def _describe(case):
    if "family" in case:
        return "family=%r width=%d weight=%d bold=%d italic=%d oblique=%d" % (
            _s(case["family"]), case["width"], case["weight"], case["bold"], case["italic"], case["oblique"])
    rules = ["%s %s->%d (subtable %d)" % ({1: "single", 3: "alternate", 4: "ligature"}[r["t"]],
                                           "+".join(map(str, r["src"])), r["dst"], r["sub"])
             for r in case["rules"]]
    text = ""
    if case.get("text"):
        text = ", glyph text=%s" % [" ".join("U+%04X" % c for c in t) for t in case["text"]]
    return "%s font, %d glyphs, names=%r, cmap(format %s)=%s, GSUB=[%s]%s" % (
        case["kind"], case["n"], [_s(x) for x in case["names"]], case.get("cmf", "4"),
        ["U+%04X->%d" % (c, g) for c, g in case["cmap"]], "; ".join(rules), text)


def _nontrivial(case):
    """The completion has to infer, drop or repair something."""
    names = [_s(x) for x in case["names"]]
    if len(names) < case["n"]:
        return case["n"] > 1
    rest = names[1:]
    return (any(x == "" or x == ".notdef" for x in rest) or len(set(names)) < len(names)
            or any(not all((c.isascii() and c.isalnum()) or c in "._" for c in x) for x in rest))


def _cfg(base, **kw):
    """A cfg text derived from spec/<base> with constants replaced."""
    out = []
    for line in open(os.path.join(vlib.SPEC_DIR, base)).read().splitlines():
        key = line.strip().split(" = ")[0] if " = " in line else None
        if key in kw:
            line = "  %s = %s" % (key, kw[key])
        out.append(line)
    return "\n".join(out) + "\n"


def _fails(res):
    """FAIL lines printed by NamesTrace: list of dicts {line, id, api, fails:[[clause, glyph, tag]]}."""
    out = []
    for p in res.prints:
        if p.startswith('<<"FAIL", '):
            body = p[len('<<"FAIL", '):]
            if body.endswith(">>"):
                body = body[:-2]
            out.append(json.loads(json.loads(body)))
    return out


def _merge(paths, out_path, ids=None):
    """Interleave the events of several process runs: all events of one case consecutive,
    process 0 (which carries the reset event) first.  No event is looked at beyond its id."""
    by = {}
    order = []
    for p in paths:
        with open(p) as f:
            for line in f:
                if not line.strip():
                    continue
                i = json.loads(line)["id"]
                if i not in by:
                    by[i] = []
                    order.append(i)
                by[i].append(line)
    n = 0
    with open(out_path, "w") as f:
        for i in order:
            if ids is None or i in ids:
                f.writelines(by[i])
                n += len(by[i])
    return n


def _record(ctx, binp, cases, d, procs, calls=20):
    """Run `procs` fresh processes on the cases; returns the list of per-process event files."""
    cpath = os.path.join(d, "cases.ndjson")
    vlib.write_ndjson(cpath, cases)
    outs = [os.path.join(d, "proc%d.ndjson" % p) for p in range(procs)]

    def one(p):
        ctx.run([binp, "names", cpath, outs[p], str(p), str(calls)], timeout=1500)
    with concurrent.futures.ThreadPoolExecutor(max_workers=min(procs, 4)) as ex:
        list(ex.map(one, range(procs)))
    return outs


def _validate(ctx, trace, label, ncases):
    ok, line, res = ctx.validate_trace("NamesTrace", trace, label=label, traces=ncases, timeout=1500)
    if not ok:
        raise vlib.Infra("NamesTrace could not consume the trace (line %s): %s\n%s" % (
            line, label, res.error_text[-2000:]))
    ctx.cov["evaluations"] += sum(1 for _ in open(trace))
    return _fails(res)


def _norm(clause):
    """Answers that differ between two calls in one process or between two processes are one class
    (with 200 calls per process a reproduction usually shows the difference inside one process)."""
    return "unstable" if clause == "unstable_across" else clause


API_ORDER = {"MakeGlyphNames": 0, "MakeSimple": 1, "EnsureGlyphNames": 2, "PostScriptName": 3}


def _replay_names(ctx, cases, want=None, procs=3):
    """Re-record the given descriptions from scratch (fresh processes, 200 calls each) and judge
    them again.  A failure class is (clause, tag); every class in `want` (any class if want is
    None) that fails again is reported once, with the smallest description that shows it.
    Returns the set of classes reported."""
    binp = ctx.build("c20")
    d = ctx.subdir("replay")
    cases = [dict(c, id=i + 1) for i, c in enumerate(cases)]
    outs = _record(ctx, binp, cases, d, procs, calls=200)
    tp = os.path.join(d, "trace.ndjson")
    _merge(outs, tp)
    fails = _validate(ctx, tp, "replay of %d description(s)" % len(cases), 0)
    events = vlib.read_ndjson(tp)
    by_id = {c["id"]: c for c in cases}
    classes = {}
    for f in fails:
        for clause, g, tag in f["fails"]:
            clause = _norm(clause)
            cand = (_rank(by_id[f["id"]]), API_ORDER.get(f["api"], 9), f["id"], f, g)
            if (clause, tag) not in classes or cand[:3] < classes[(clause, tag)][:3]:
                classes[(clause, tag)] = cand
    reported = set()
    for key, (_, _, cid, f, g) in sorted(classes.items()):
        if want is not None and key not in want:
            continue
        clause, tag = key
        case = by_id[cid]
        ev = events[f["line"] - 1]
        answers = ev.get("outs") or ([ev["installed"]] + ev.get("after", []) if "installed" in ev else [])
        shown = [[_s(x) for x in a] for a in answers[:3]]
        what = ("%s breaks clause '%s'%s of the glyph-name law (NamesLaw.tla)%s: %s; answers: %s" % (
            f["api"], clause, (" at glyph %d" % g) if g >= 0 else "",
            (" [%s]" % tag) if tag else "", _describe(case), json.dumps(shown)[:500]))
        ctx.violation(what, sig={"api": f["api"], "clause": clause, "tag": tag}, case=case)
        reported.add(key)
    return reported


def _replay_ps(ctx, case):
    binp = ctx.build("c20")
    d = ctx.subdir("replayps")
    case = dict(case)
    case["id"] = 1
    cp = os.path.join(d, "case.ndjson")
    vlib.write_ndjson(cp, [case])
    tp = os.path.join(d, "trace.ndjson")
    ctx.run([binp, "ps", cp, tp])
    fails = _validate(ctx, tp, "replay of one PostScript-name case", 0)
    if not fails:
        return False
    ev = vlib.read_ndjson(tp)[0]
    ctx.violation("PostScriptName returns %r, which contains a character that is not permitted in a PostScript "
                  "name, for %s" % (_s(ev["out"]), _describe(case)),
                  sig={"api": "PostScriptName", "clause": "pschars", "tag": ""}, case=case)
    return True


def _rank(case):
    return (case["n"], len(case["rules"]), len(case["cmap"]), len(case["names"]),
            sum(1 for t in case.get("text") or [] if t))


# ----------------------------------------------------------------------------- the check
def _model(ctx):
    runs = [("Names", "Names.cfg", None, "Names exhaustive: names x cmap, <= 3 glyphs"),
            ("Names", "NamesTinyRules.cfg", None, "Names exhaustive: names x 1 GSUB rule, <= 3 glyphs"),
            ("Names", "NamesTinyText.cfg", None, "Names exhaustive: colliding names x shared glyph text, <= 4 glyphs")]
    if not ctx.quick():
        runs += [("Names", "NamesTinyCmap.cfg", None, "Names exhaustive: names x 2 codes, <= 4 glyphs"),
                 ("Names", "NamesTinyAll.cfg", None, "Names exhaustive: names x 1 code x 1 rule, <= 3 glyphs"),
                 ("Names", "NamesX.cfg", {"NamesX.cfg": _cfg("NamesTinyRules.cfg", MaxRules="2", MaxN="2",
                                                              LigLens="{1, 2, 3}")},
                  "Names exhaustive: names x 2 GSUB rules, <= 2 glyphs")]
    for module, cfg, files, label in runs:
        res = ctx.tlc(module, cfg=cfg, files=files, timeout=2400, label=label)
        if not res.ok:
            raise vlib.Infra("%s (%s) violates %s on the model -- the specification is wrong, not the code:\n%s"
                             % (module, cfg, res.violated, res.error_text[:1500]))
    # the law has teeth on the model: a reference whose ligature branch renames named targets
    # (the shape of names.go:161) must be refused on some tiny description
    res = ctx.tlc("Names", cfg="NamesBug.cfg", timeout=600, label="Names: faulty ligature branch is refused (violation expected)")
    if res.violated != "BugAccepted":
        raise vlib.Infra("the law accepts the faulty reference completion X on every tiny description "
                         "(expected a counterexample to BugAccepted, got %r)" % res.violated)
    ctx.cov["exhaustive"] = True
    ctx.cov["bounds"] = {
        "exhaustive_model": "<= 3 glyphs (4 without rules), 6 pool names + own + missing per glyph, codes {A, ij}, "
                            "<= 1 GSUB rule of type 1/3/4 (2 rules for 2 glyphs in the thorough tier), every length of the names list",
        "generated_fonts": "<= 6 glyphs, 16 pool names, 8 code points, <= 4 rules in shared or separate subtables, ttf/cff/cid",
        "calls": "20 per process, 3-4 processes; 200 per process when a failure is reproduced",
    }


def _generate(ctx):
    """Font descriptions from TLC."""
    cases = []
    seen = set()

    def take(res, what):
        if res.violated:
            raise vlib.Infra("%s: the references violate %s on a generated description -- spec error:\n%s"
                             % (what, res.violated, res.error_text[:1500]))
        for c in res.cases:
            k = json.dumps(c, sort_keys=True)
            if k not in seen:
                seen.add(k)
                cases.append(c)

    w = 4
    ntr = ctx.pick(200, 3000)
    take(ctx.tlc("Names", cfg="NamesGen.cfg", workers=w, simulate=ntr, depth=80, timeout=1500,
                 label="Names generation (simulate, 6 glyphs)"), "generation")
    # a smaller alphabet makes collisions between given names, glyph-list names and ligature names frequent
    take(ctx.tlc("Names", cfg="NamesG2.cfg", workers=w, simulate=ctx.pick(120, 1500), depth=80, timeout=1500,
                 files={"NamesG2.cfg": _cfg("NamesGen.cfg", Codes="{105, 106, 307}", MaxN="5", MaxRules="3")},
                 label="Names generation (simulate, i/j/ij alphabet)"), "generation (small alphabet)")
    # few rule types and glyphs: rules often share a subtable and compete for one target or form chains
    take(ctx.tlc("Names", cfg="NamesG5.cfg", workers=w, simulate=ctx.pick(100, 1000), depth=80, timeout=1500,
                 files={"NamesG5.cfg": _cfg("NamesGen.cfg", Codes="{65}", MaxN="4", MaxRules="3", RuleTypes="{1, 3}",
                                            PoolSel='"tiny"')},
                 label="Names generation (simulate, shared subtables)"), "generation (shared subtables)")
    # collision multiplicity: 3..5 glyphs share one text / one rule source while "A", "A.1", "A.2",
    # "A.alt1", "A.alt2" may already be held by given names (k-way competition for one base name)
    take(ctx.tlc("Names", cfg="NamesG6.cfg", workers=w, simulate=ctx.pick(100, 1000), depth=80, timeout=1500,
                 files={"NamesG6.cfg": _cfg("NamesGen.cfg", Codes="{65}", MaxN="6", MaxRules="4", RuleTypes="{1, 3}",
                                            PoolSel='"clash"', TextSel='"A"')},
                 label="Names generation (simulate, k-way name collisions)"), "generation (collisions)")
    # name length: 2..4 glyphs share a text whose glyph-list name is exactly as long as a name may be
    take(ctx.tlc("Names", cfg="NamesG10.cfg", workers=w, simulate=ctx.pick(40, 300), depth=80, timeout=1500,
                 files={"NamesG10.cfg": _cfg("NamesGen.cfg", Codes="{}", MinN="3", MaxN="5", MaxRules="0", RuleTypes="{1}",
                                            PoolSel='"tiny"', TextSel='"long"', Kinds='{"cff", "cid"}',
                                            CmapFormats='{"4"}')},
                 label="Names generation (simulate, names at the length limit)"), "generation (length limit)")
    # ligature SETS: all ligatures hang off glyph 1 in one subtable, 2..4 components, in every order of
    # nameable / abandoned at component k / nameable.  No cmap and no colliding names: a glyph is
    # either named for good or unnamed until a rule names it.
    take(ctx.tlc("Names", cfg="NamesG7.cfg", workers=w, simulate=ctx.pick(250, 1500), depth=80, timeout=1500,
                 files={"NamesG7.cfg": _cfg("NamesGen.cfg", Codes="{}", MinN="3", MaxN="4", MinRules="2", MaxRules="4",
                                            RuleTypes="{4}", LigLens="{2, 3, 4}", LigFirst="1", PoolSel='"own"',
                                            TextSel='"none"', CmapFormats='{"4"}', Kinds='{"cff"}')},
                 label="Names generation (simulate, ligature sets)"), "generation (ligature sets)")
    # ... with single and alternate substitutions chained before, between and behind the ligatures: only glyphs
    # 0 and 1 have names, everything else is inferred through chains (a ligature glyph as the source of a later
    # rule, the same components producing another glyph, the same ligature glyph reachable twice)
    take(ctx.tlc("Names", cfg="NamesG9.cfg", workers=w, simulate=ctx.pick(120, 1000), depth=80, timeout=1500,
                 files={"NamesG9.cfg": _cfg("NamesGen.cfg", Codes="{}", MinN="4", MaxN="5", MinRules="3", MaxRules="5",
                                            RuleTypes="{1, 3, 4}", LigLens="{2}", LigFirst="1", PoolSel='"first"',
                                            TextSel='"none"', CmapFormats='{"4"}', Kinds='{"cff"}')},
                 label="Names generation (simulate, ligature sets and chained substitutions)"),
         "generation (ligature sets, chained)")
    # every cmap subtable format the library can pick as best subtable, 1..3 mappings, BMP / astral / both
    take(ctx.tlc("Names", cfg="NamesG8.cfg", workers=w, simulate=ctx.pick(80, 800), depth=80, timeout=1500,
                 files={"NamesG8.cfg": _cfg("NamesGen.cfg", Codes="{65, 307, 65536}", MaxN="3", MaxRules="1",
                                            PoolSel='"tiny"', TextSel='"none"',
                                            CmapFormats='{"4", "12", "6", "0", "0mac"}')},
                 label="Names generation (simulate, cmap formats)"), "generation (cmap formats)")
    if not ctx.quick():
        take(ctx.tlc("Names", cfg="NamesG3.cfg", workers=w, simulate=400, depth=80, timeout=1500,
                     files={"NamesG3.cfg": _cfg("NamesGen.cfg", Codes="{102, 105, 64257}", MaxN="4", MaxRules="2")},
                     label="Names generation (simulate, f/i/fi alphabet)"), "generation (fi)")
        take(ctx.tlc("Names", cfg="NamesG4.cfg", timeout=1500,
                     files={"NamesG4.cfg": _cfg("NamesTinyAll.cfg", MaxN="2", Codes="{307}", Quiet="FALSE",
                                                Kinds='{"ttf", "cff", "cid"}')},
                     label="Names generation (exhaustive, 2 glyphs)"), "generation (exhaustive)")
    for i, c in enumerate(cases):
        c["id"] = i
    if len(cases) < 200:
        raise vlib.Infra("generation produced only %d descriptions" % len(cases))
    return cases


def _names(ctx, binp):
    cases = _generate(ctx)
    procs = ctx.pick(3, 4)
    d = ctx.subdir("c20")
    outs = _record(ctx, binp, cases, d, procs)
    ctx.sample({"font_description_from_TLC": cases[len(cases) // 2]})
    by_id = {c["id"]: c for c in cases}
    classes = {}      # (clause, tag) -> list of case ids
    nfail = 0
    nchunks = (len(cases) + CHUNK - 1) // CHUNK
    size = (len(cases) + nchunks - 1) // nchunks
    for k in range(0, len(cases), size):
        ids = set(c["id"] for c in cases[k:k + size])
        tp = os.path.join(d, "trace%d.ndjson" % k)
        _merge(outs, tp, ids)
        if k == 0:
            evs = vlib.read_ndjson(tp)
            first = next((i for i, e in enumerate(evs) if e["ev"] == "reset" and e["n"] >= 4 and e["rules"]), 0)
            for e in evs[first:first + 3]:
                ctx.sample({"recorded_event": e})
        for f in _validate(ctx, tp, "NamesTrace: descriptions %d..%d" % (k, k + len(ids) - 1), len(ids)):
            nfail += 1
            for clause, g, tag in f["fails"]:
                classes.setdefault((_norm(clause), tag), []).append(f["id"])
        os.remove(tp)
    ctx.cov["distinct_nontrivial"] += sum(1 for c in cases if _nontrivial(c))
    ctx.log("%d descriptions, %d events refused, failure classes: %s" % (
        len(cases), nfail, {"/".join(k): len(set(v)) for k, v in classes.items()}))
    if classes:
        # reproduction: the three smallest witnesses of every class, re-recorded from scratch
        pick = []
        for key, ids in sorted(classes.items()):
            for cid in sorted(set(ids), key=lambda i: _rank(by_id[i]))[:3]:
                if cid not in pick:
                    pick.append(cid)
        reported = set()
        for attempt in range(4):     # an answer that differs between identical calls may need another try
            todo = set(classes) - reported
            if not todo:
                break
            reported |= _replay_names(ctx, [by_id[i] for i in pick], want=todo, procs=procs)
        for key in sorted(set(classes) - reported):
            ctx.notes.append("failure class %s (%d descriptions) did not reproduce when re-recorded"
                             % (list(key), len(set(classes[key]))))
    return len(cases)


def _psnames(ctx, binp):
    d = ctx.subdir("ps")
    files = None
    cfg = "NamesPS.cfg"
    if ctx.quick():
        files = {"NamesPSq.cfg": _cfg("NamesPS.cfg", Widths="{5, 12}", Weights="{400}")}
        cfg = "NamesPSq.cfg"
    res = ctx.tlc("NamesPS", cfg=cfg, files=files, timeout=900, label="NamesPS exhaustive + generation")
    if not res.ok:
        raise vlib.Infra("NamesPS violates %s on the model -- spec error" % res.violated)
    cases = res.cases
    for i, c in enumerate(cases):
        c["id"] = i
    cp = os.path.join(d, "pscases.ndjson")
    vlib.write_ndjson(cp, cases)
    t1 = os.path.join(d, "ps1.ndjson")
    ctx.run([binp, "ps", cp, t1])
    t2 = os.path.join(d, "ps2.ndjson")
    ctx.run([binp, "pssweep", str(ctx.pick(1000, 20000)), t2])
    bad = []
    for tp, label in ((t1, "NamesTrace: PostScript names, TLC cases"), (t2, "NamesTrace: PostScript names, sweep")):
        evs = vlib.read_ndjson(tp)
        if tp == t1:
            ctx.sample({"recorded_event": evs[len(evs) // 3]})
        for f in _validate(ctx, tp, label, len(evs)):
            bad.append(evs[f["line"] - 1])
        ctx.cov["distinct_nontrivial"] += sum(
            1 for e in evs if any(b < 33 or b > 126 or chr(b) in "()<>[]{}/%" for b in e["family"]))
    if bad:
        ctx.log("%d PostScript names refused" % len(bad))
        bad.sort(key=lambda e: len(e["family"]))
        e = bad[0]
        case = {k: e[k] for k in ("family", "width", "weight", "bold", "italic", "oblique")}
        if not _replay_ps(ctx, case):
            ctx.notes.append("a refused PostScript name did not reproduce in isolation")


def run(ctx):
    ctx.assumptions += [
        "glyph names are compared as byte strings; the Adobe glyph list is modelled for U+0020, A, B, f, i, j, U+00A0, "
        "U+0133, U+FB01 (uniXXXX/uXXXX forms accepted for every code point)",
        "a name is demanded kept only if it is valid under the strictest reading (AGL characters, <= 31 bytes) and occurs once",
        "map-order dependence is searched with 20 calls per process and 3-4 processes (200 calls when reproducing)",
        "fonts are built in memory through the public API (fonts.Make + names, cmap subtable, GSUB lookups); "
        "GSUB rules and cmap entries refer to existing glyphs",
    ]
    _model(ctx)
    binp = ctx.build("c20")
    n = _names(ctx, binp)
    _psnames(ctx, binp)
    ctx.cov["rule"] = ("distinct TLC-generated font descriptions in which some glyph name is missing, duplicate, "
                       "reserved or invalid (%d descriptions in total), plus PostScript-name inputs containing a "
                       "forbidden byte; evaluations = recorded events judged by TLC" % n)


def replay(ctx, obj):
    case = obj["case"]
    if "family" in case:
        _replay_ps(ctx, case)
    else:
        _replay_names(ctx, [case], want=None)
