"""C17 -- the buffered binary reader is observationally a plain random-access byte view.

1. TLC, exhaustive: ByteView.tla (window cache, B=4, files 0..MaxFile, all short-read choices)
   satisfies the representation invariants and refines the plain view (ReplyOK).
2. R: TLC -simulate generates call histories *with* the sizes of the underlying reads; the
   harness scales them to the real 1024-byte buffer (x256, +-1 jitter) and runs the real
   parser.Parser with a scripted reader, recording one event per call.
3. V: seeded random histories over files of 0..5000 bytes and full/short/one-byte readers.
   All recorded traces are validated by TLC against PlainViewTrace.tla.
A rejected line is re-recorded in isolation and re-validated before it counts.
"""
import json
import os

import vlib

LEVEL = "model_checking"
MANIFEST = {
    "text": "TLC exhaustively checks the window-cache model ByteView.tla (all call histories, all short-read "
            "choices, B=4) against the plain-view reply rules; TLC-generated histories (scaled to the real 1024-byte "
            "buffer, with scripted underlying read sizes) and seeded random histories are executed on the real "
            "parser.Parser and every recorded call is validated by TLC against PlainViewTrace.tla, which states "
            "exactly the property (value, position, error iff past the end).",
    "note": "Trusted: TLC, the instrumented ReadSeekSizer of the harness, the JSON trace encoding. Assumes readers "
            "obey io.Reader; ReadBytes(n>1024) is outside the domain (documented panic).",
    "technique": "TLA+ model checking (TLC) of ByteView.tla, Apalache inductive invariant ByteViewInd.tla for all buffer "
                 "sizes, trace validation of recorded parser.Parser calls against PlainViewTrace.tla",
}


def _validate(ctx, trace, cases_path, label):
    evs = sum(1 for _ in open(trace))
    ncases = sum(1 for _ in open(cases_path))
    ok, line, res = ctx.validate_trace("PlainViewTrace", trace, label=label, traces=ncases)
    ctx.cov["evaluations"] += evs
    if ok:
        return
    if line is None:
        raise vlib.Infra("trace validation failed without a rejected line:\n" + res.error_text[-2000:])
    events = vlib.read_ndjson(trace)
    bad = events[line - 1]
    cid = bad.get("case")
    case = None
    for c in vlib.read_ndjson(cases_path):
        if c["id"] == cid:
            case = c
            break
    if case is None:
        raise vlib.Infra("rejected line %d has no case" % line)
    _replay_case(ctx, case, first=bad)


def _replay_case(ctx, case, first=None):
    """Re-record one case alone and validate it alone; report if it is rejected again."""
    binp = ctx.build("c17")
    d = ctx.subdir("replay")
    cp = os.path.join(d, "case.json")
    json.dump(case, open(cp, "w"))
    tp = os.path.join(d, "trace.ndjson")
    ctx.run([binp, "one", cp, tp])
    ok, line, res = ctx.validate_trace("PlainViewTrace", tp, label="replay of one case", traces=0)
    if ok:
        ctx.notes.append("a rejected line did not reproduce in isolation (case %s)" % case.get("id"))
        raise vlib.Infra("rejection of case %s did not reproduce in isolation" % case.get("id"))
    events = vlib.read_ndjson(tp)
    bad = events[line - 1] if line else first
    prev = events[line - 2] if line and line >= 2 else None
    small = dict(bad)
    small.pop("data", None)
    what = ("parser.Parser is not a plain byte view: event %d of the case is not explained by "
            "PlainViewTrace: %s (previous event: %s; file length %d, reader mode %s)" % (
                (line or 0) - 1, json.dumps(small)[:600],
                json.dumps({k: v for k, v in (prev or {}).items() if k not in ("data", "file")})[:300],
                len(case["file"]), case.get("mode")))
    ctx.violation(what, sig={"event": bad.get("ev"), "in": bad.get("in", "")}, case=case)


def run(ctx):
    ctx.assumptions += [
        "underlying readers obey io.Reader (a (0, nil) result is followed by progress; every fifth random case uses a "
        "reader that returns (0, nil) on every second call); ReadBytes(n > 1024) panics by contract",
        "trace events carry returned data in full up to 48 bytes, else length, first/last 8 bytes and a checksum",
        "exhaustive TLC model uses B=4 and explicit byte sequences; the cursor/window arithmetic is additionally proved "
        "inductive for every B in 1..4096 with Apalache (ByteViewInd.tla); B=1024 of the real code is reached by scaled replay",
    ]
    # 1. the design: exhaustive model checking of the window cache
    res = ctx.tlc("ByteView", timeout=600, label="ByteView exhaustive B=4")
    if not res.ok:
        raise vlib.Infra("ByteView.tla violates %s on the model -- the spec is wrong, not the code:\n%s"
                         % (res.violated, res.error_text[:1500]))
    if not ctx.quick():
        for b, mf in ((2, 8), (3, 9), (5, 12)):
            cfg = open(os.path.join(vlib.SPEC_DIR, "ByteView.cfg")).read()
            cfg = cfg.replace("B = 4", "B = %d" % b).replace("MaxFile = 10", "MaxFile = %d" % mf)
            r = ctx.tlc("ByteView", cfg="BVx.cfg", files={"BVx.cfg": cfg}, timeout=1500,
                        label="ByteView exhaustive B=%d" % b)
            if not r.ok:
                raise vlib.Infra("ByteView.tla (B=%d) violates %s" % (b, r.violated))
    # 1b. the unbounded part: cursor/window arithmetic for EVERY buffer size 1..4096 (1024 in the code), every
    # file length and every history, as an inductive invariant discharged symbolically by Apalache
    if not ctx.apalache("ByteViewInd", "Init", "IndInv", 0, cinit="ConstInit", label="ByteViewInd: Init => IndInv"):
        raise vlib.Infra("ByteViewInd: Init does not establish IndInv (the spec is wrong)")
    if not ctx.apalache("ByteViewInd", "IndInit", "IndInv", 1, cinit="ConstInit",
                        label="ByteViewInd: IndInv /\\ Next => IndInv'"):
        raise vlib.Infra("ByteViewInd: IndInv is not inductive (the spec is wrong)")
    # non-vacuity: the same model without the compaction step 'from += pos' must fail
    mut = open(os.path.join(vlib.SPEC_DIR, "ByteViewInd.tla")).read()
    good = "/\\ from' = from + pos /\\ pos' = 0 /\\ used' = used - pos + l /\\ rpos' = rpos + l"
    if good not in mut:
        raise vlib.Infra("ByteViewInd.tla changed: the non-vacuity mutation no longer applies")
    mut = mut.replace(good, good.replace("from' = from + pos", "from' = from")).replace("MODULE ByteViewInd", "MODULE ByteViewIndMut")
    if ctx.apalache("ByteViewIndMut", "IndInit", "IndInv", 1, cinit="ConstInit", files={"ByteViewIndMut.tla": mut},
                    label="ByteViewInd with the compaction step removed (must fail)"):
        raise vlib.Infra("the mutated ByteViewInd model still satisfies IndInv: the inductive check is vacuous")
    ctx.cov["exhaustive"] = True
    ctx.cov["bounds"] = {"B": 4, "MaxFile": 10, "short_reads": "all", "history_length": "unbounded (finite state space under VIEW)"}

    binp = ctx.build("c17")
    d = ctx.subdir("c17")
    # 2. R: TLC-generated histories, scaled
    nsim = ctx.pick(1500, 20000)
    gen = ctx.tlc("ByteView", cfg="ByteViewGen.cfg", workers=1, simulate=nsim, depth=200,
                  timeout=900, label="ByteView generation (simulate)")
    if gen.violated:
        raise vlib.Infra("generation run violated " + gen.violated)
    if len(gen.cases) < nsim // 2:
        raise vlib.Infra("generation produced only %d histories" % len(gen.cases))
    cpath = os.path.join(d, "tlc-cases.ndjson")
    vlib.write_ndjson(cpath, gen.cases)
    distinct = len(set(json.dumps(c, sort_keys=True) for c in gen.cases))
    t1 = os.path.join(d, "scaled.ndjson")
    ctx.run([binp, "scaled", cpath, t1])
    ctx.sample({"tlc_history_B4": gen.cases[0]})
    _validate(ctx, t1, t1 + ".cases", "PlainViewTrace: scaled TLC histories")

    # 3. V: random histories at full size
    nrand = ctx.pick(250, 4000)
    chunk = 500
    done = 0
    k = 0
    while done < nrand:
        n = min(chunk, nrand - done)
        t2 = os.path.join(d, "random%d.ndjson" % k)
        ctx.run([binp, "random", str(n), t2], env={"VERIF_SEED": str(ctx.seed * 1000 + k)})
        if k == 0:
            evs = vlib.read_ndjson(t2)
            for e in evs[1:4]:
                ctx.sample({"recorded_event": {a: b for a, b in e.items() if a != "file"}})
        _validate(ctx, t2, t2 + ".cases", "PlainViewTrace: random histories %d" % k)
        os.remove(t2)
        done += n
        k += 1
    ctx.cov["distinct_nontrivial"] = distinct + nrand
    ctx.cov["rule"] = ("distinct TLC-generated call histories (with underlying read sizes) plus seeded random "
                       "histories of 1..300 calls; evaluations = recorded events validated by TLC")


def replay(ctx, obj):
    _replay_case(ctx, obj["case"])
