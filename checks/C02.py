"""C02 -- decoders are total on untrusted bytes (value or error; never panic, hang or an
allocation out of proportion), and a successful decode can be handed to the lazy accessors.

Level fault_enumeration.  What is decided (DESIGN.md section 5 C02 and section 6):

1. Guards.tla, TLC exhaustive at reduced word size: for twelve validators (table directory, cmap
   offsets, format 4 / 12, CFF INDEX, Private DICT, loca + glyph header, simple-glyph decode,
   coverage, classdef, mark-to-ligature arrays) the acceptance tests and the accesses performed are
   transcribed with Go integer semantics; TLC enumerates every field assignment and prints every
   HOLE (an accepted input with an out-of-bounds access or an unbounded allocation) and a sample of
   the other states.  R: the harness builds the real input of each printed state and runs the real
   decoder; the recorded outcome is judged by DecoderTrace.tla.
2. DecoderPlan.tla: TLC generates the fault plan (seed x mutation kind x value class, with the
   number of mutants per cell) from the seed list and checks that it covers every truncation
   length, every aligned word with each of the ten values, every byte, every table deletion.
3. The harness executes every planned mutant on its decoder (and, on success, the lazy accessors)
   in killable worker processes; V: DecoderTrace.tla recomputes the plan, requires an outcome for
   every planned mutant and evaluates the contract on every logged mutant and every cell.
4. Every contract failure is grouped by (decoder, panic / allocation site); one representative per
   group is executed again alone in a fresh process and re-judged by TLC before it is reported.
"""
import base64
import json
import os
import re

import vlib

LEVEL = "fault_enumeration"
MANIFEST = {
    "text": "Fault enumeration driven and judged by TLA+ specs: TLC generates the fault plan (DecoderPlan.tla: every "
            "truncation length, every aligned 16-bit word x 10 boundary values, every byte ^0x80 / =0xFF, every table "
            "deletion, over whole fonts of both kinds, Go Regular and every stand-alone table) and the real decoders + "
            "lazy accessors are run on every mutant in killable workers; DecoderTrace.tla requires an outcome for every "
            "planned mutant and evaluates the contract (value|error, alloc <= 64*len + 16 MiB, no accessor panic). "
            "Guards.tla (TLC exhaustive, reduced word size, Go wrap-around semantics) finds arithmetic holes of twelve "
            "validators; every hole is concretised and replayed on the real decoder.",
    "note": "NOT decided: the property for all 256^n byte strings (only single-field/truncation faults of the stated "
            "seeds, and guard models at 3-5 bit words); Go memory safety as such; quadratic-time inputs that need "
            "several coordinated fields. Layout / lookup application panics are reported as diagnostics only (the "
            "property lists accessors, not shaping). Trusted: TLC, recover()/runtime metrics in the harness, the "
            "concretisation of model states (a heuristic; only the real outcome is a verdict).",
    "technique": "TLA+ guard models checked exhaustively by TLC + TLC-generated single-fault plans executed on the real "
                 "decoders, outcomes validated against the contract trace spec DecoderTrace.tla",
}

# alternative structures the decoders accept; each must be present in at least one seed, as
# measured by the independent walker harness/internal/mutate/formats.go (not asserted by the builders)
REQUIRED_FORMATS = [
    "cff:simple", "cff:CID-keyed", "cff:charset-format0", "cff:charset-format1", "cff:charset-format2",
    "cff:charset-predefined0", "cff:charset-predefined1", "cff:encoding-format0", "cff:encoding-format1",
    "cff:encoding-supplement", "cff:encoding-predefined0", "cff:encoding-predefined1", "cff:FDSelect-format0",
    "cff:FDSelect-format3", "cff:INDEX-offSize1", "cff:INDEX-offSize2", "cff:INDEX-offSize3", "cff:INDEX-offSize4",
    "cff:local-subrs", "cff:global-subrs", "cff:custom-strings",
    "cmap:format0", "cmap:format4", "cmap:format4-glyphIdArray", "cmap:format6", "cmap:format12",
    "coverage:1", "coverage:2", "classdef:1", "classdef:2", "loca:short", "loca:long",
    "glyf:simple", "glyf:composite", "glyf:empty", "post:1.0", "post:2.0", "post:3.0", "kern:subtable-format0",
    "GDEF:glyphClassDef", "GDEF:markAttachClassDef", "GDEF:markGlyphSets", "GSUB:useMarkFilteringSet",
    "GSUB:1.1", "GSUB:1.2", "GSUB:2.1", "GSUB:3.1", "GSUB:4.1", "GSUB:5.1", "GSUB:5.2", "GSUB:5.3", "GSUB:6.1",
    "GSUB:6.2", "GSUB:6.3", "GSUB:7.1(extension->1.1)", "GSUB:8.1",
    "GPOS:1.1", "GPOS:1.2", "GPOS:2.1", "GPOS:2.2", "GPOS:3.1", "GPOS:4.1", "GPOS:5.1", "GPOS:6.1", "GPOS:7.1",
    "GPOS:7.2", "GPOS:7.3", "GPOS:8.1", "GPOS:8.2", "GPOS:8.3", "GPOS:9.1(extension->1.1)",
    "sfnt:scaler-00010000", "sfnt:scaler-4f54544f", "maxp:0.5", "maxp:1.0",
    "cff:t2-num-2byte", "cff:t2-num-shortint", "cff:t2-num-fixed",
] + ["cff:t2-op-%d" % n for n in (1, 3, 4, 5, 6, 7, 8, 10, 11, 14, 18, 19, 20, 21, 22, 23, 24, 25, 26, 27, 29, 30, 31)] \
  + ["cff:t2-op-12.%d" % n for n in (0, 3, 4, 5, 9, 10, 11, 12, 14, 15, 18, 20, 21, 22, 23, 24, 26, 27, 28, 29, 30,
                                     34, 35, 36, 37)]

PROVED = {"cmap", "cmap4", "cmap4seg", "cmap12", "index", "loca", "cover", "classdef", "t2store", "t2stack", "sum",
          "cffpriv", "fixedtab", "prodcap", "t2op"}
NOT_REPLAYED = {"cmap4seg", "cmap12", "cover"}


def _budget_kib():
    txt = open(os.path.join(vlib.SPEC_DIR, "Decoder.tla")).read()
    m = re.search(r"^BudgetKiB == (\d+)", txt, re.M)
    if not m:
        raise vlib.Infra("BudgetKiB not found in Decoder.tla")
    return int(m.group(1))


def _seeds_module(seeds):
    recs = [{"id": s["id"], "dec": s["dec"], "len": s["len"], "mlen": s["mlen"], "ntab": s["ntab"],
             "ngid": s.get("ngid", 0), "ndict": s.get("ndict", 0),
             "ncnt": s.get("ncnt", 0), "ncpair": s.get("ncpair", 0)} for s in seeds]
    return ("---------------------------- MODULE C02Seeds ----------------------------\n"
            "\\* generated by checks/C02.py from the seed list of `c02 seeds`\n"
            "SeedsVal == " + vlib.tla_value(recs) + "\n"
            "=============================================================================\n")


def _bad_lines(res):
    """(line, reason) of every BAD print of a DecoderTrace run."""
    out = []
    for p in res.prints:
        m = re.match(r'<<"BAD", (\d+), "(\w+)">>', p)
        if m:
            out.append((int(m.group(1)), m.group(2)))
    return out


def _validate(ctx, trace, seeds_mod, label, traces):
    ok, line, res = ctx.validate_trace("DecoderTrace", trace, files={"C02Seeds.tla": seeds_mod}, label=label,
                                       traces=traces, timeout=1200)
    if not ok:
        ev = ""
        if line:
            with open(trace) as f:
                for i, l in enumerate(f, 1):
                    if i == line:
                        ev = l[:600]
                        break
        raise vlib.Infra("DecoderTrace refuses line %s of %s (harness and plan disagree, not a verdict): %s\n%s"
                         % (line, label, ev, res.error_text[-1500:]))
    return res


def _failures_of(ev):
    """(phase, site, what) for each contract failure the harness recorded in a mut/guard event."""
    out = []
    if ev["outcome"] in ("panic", "timeout"):
        out.append(("decode", ev["site"], "%s: %s" % (ev["outcome"], ev["msg"])))
    for a in ev.get("badacc", []):
        if a["outcome"] == "panic":
            out.append((a["name"], a["site"], "panic in lazy accessor %s: %s" % (a["name"], a["msg"])))
    return out


def _isolate(ctx, binp, env, sdir, seeds_mod, mutants, label):
    """Run each mutant alone in a fresh process; return the events TLC judges BAD again."""
    d = ctx.subdir("iso")
    lp = os.path.join(d, "mutants.ndjson")
    vlib.write_ndjson(lp, mutants)
    tp = os.path.join(d, "replay.ndjson")
    e = dict(env)
    e["C02_ALLOCSITE"] = "1"
    ctx.run([binp, "one", sdir, lp, tp], env=e, timeout=1800)
    res = _validate(ctx, tp, seeds_mod, label, traces=0)
    evs = vlib.read_ndjson(tp)
    bad = []
    for line, why in _bad_lines(res):
        bad.append((evs[line - 1], why))
    return bad


def _report(ctx, ev, why, seed_name, data, origin):
    """One violation per (decoder, site)."""
    fails = _failures_of(ev)
    if why == "alloc":
        fails = [("alloc", ev["site"] or "alloc:unknown",
                  "decode allocated %d KiB for an input of %d bytes" % (ev["allocKiB"], len(data)))] + fails
    n = 0
    for phase, site, what in fails:
        key = (ev["dec"], site)
        if key in ctx._c02_seen:
            continue
        ctx._c02_seen.add(key)
        n += 1
        msg = ("decoder %s on %s (%d bytes): %s at %s [%s]" % (ev["dec"], seed_name, len(data), what, site, origin))
        ctx.violation(msg, sig={"decoder": ev["dec"], "site": site, "msg": what.split(": ", 1)[-1][:60]},
                      case={"dec": ev["dec"], "data_b64": base64.b64encode(data).decode(), "phase": phase,
                            "site": site, "origin": origin, "seed": seed_name})
    return n


def _mutant_bytes(ctx, binp, env, sdir, ev):
    """The bytes of a planned mutant, produced by the harness itself (c02 bytes)."""
    d = ctx.subdir("bytes")
    lp = os.path.join(d, "m.ndjson")
    vlib.write_ndjson(lp, [{"seed": ev["seed"], "kind": ev["kind"], "v": ev["v"], "idx": ev["idx"]}])
    ctx.run([binp, "bytes", sdir, lp, d], env=env, timeout=120)
    return open(os.path.join(d, "0.bin"), "rb").read()


def run(ctx):
    ctx._c02_seen = set()
    budget = _budget_kib()
    binp = ctx.build("c02")
    env = {"C02_BUDGET_KIB": str(budget), "C02_PROCS": str(ctx.workers),
           "C02_TIMEOUT_MS": os.environ.get("C02_TIMEOUT_MS", "20000")}
    maxmlen = ctx.pick(1024, 16384)
    if os.environ.get("C02_MAXMLEN"):
        maxmlen = int(os.environ["C02_MAXMLEN"])
    if maxmlen:
        env["C02_MAXMLEN"] = str(maxmlen)
    # whole fonts above 32 KiB (Go Regular, ~14 ms per mutant): quick mutates the directory region only
    bigmlen = int(os.environ.get("C02_BIGMLEN", ctx.pick(256, 0)))
    if bigmlen:
        env["C02_BIGMLEN"] = str(bigmlen)
    ctx.assumptions += [
        "the contract constant of the allocation bound is 16 MiB (Decoder.tla BudgetKiB): a well-formed 32-byte cmap "
        "format-4 subtable mapping the whole BMP makes sfnt.Read allocate 7-9 MiB (it is decoded several times), which "
        "is a format-inherent constant, so the 4 MiB of the design would be a false alarm",
        "allocation = delta of /gc/heap/allocs:bytes around the decoder call (cumulative, not peak)",
        "a mutant that runs for more than C02_TIMEOUT_MS (20 s, >10^4 x the median) is a hang; it must reproduce twice alone",
        "lazy accessors are called with in-range arguments only (glyph ids below NumGlyphs, non-negative runes)",
    ]

    # ------------------------------------------------------------ 1. guard models
    g = ctx.tlc("Guards", timeout=900, label="Guards exhaustive (reduced word size)")
    if g.violated == "NoHole":
        raise vlib.Infra("Guards.tla: a guard model listed in Proved has a hole at the reduced word size -- review the "
                         "transcription (or move the guard out of Proved so that the hole is replayed):\n"
                         + "\n".join(g.counterexample[:12]))
    if not g.ok:
        raise vlib.Infra("Guards.tla: TLC reports %s\n%s" % (g.violated, g.error_text[:1500]))
    per = {}
    for c in g.cases:
        p = per.setdefault(c["guard"], {"emitted": 0, "holes": 0})
        p["emitted"] += 1
        p["holes"] += 1 if c["hole"] else 0
    for p in g.prints:
        m = re.match(r'<<"HOLE", "(\w+)">>', p)
        if m:
            per.setdefault(m.group(1), {"emitted": 0, "holes": 0})["holes"] += 1
    ctx.cov["bounds"]["guards"] = {"word_bits": {"dir": 4, "cmap": 5, "cmap12/cover/classdef": 3, "cffpriv": "4 (signed)"},
                                   "holes_per_guard": {k: v["holes"] for k, v in sorted(per.items())},
                                   "states": g.distinct}
    for name in sorted(PROVED):
        if per.get(name, {}).get("holes"):
            ctx.notes.append("guard model %s, believed hole-free, has %d model-level holes (replayed below)"
                             % (name, per[name]["holes"]))
    proved_ok = sorted(n for n in PROVED if not per.get(n, {}).get("holes"))
    ctx.notes.append("TLC: no hole at reduced word size in guards %s; holes in %s" % (
        ", ".join(proved_ok), ", ".join("%s(%d)" % (k, v["holes"]) for k, v in sorted(per.items()) if v["holes"])))

    d = ctx.subdir("c02")
    gc_path = os.path.join(d, "guard-cases.ndjson")
    vlib.write_ndjson(gc_path, g.cases)
    gt_path = os.path.join(d, "guard-trace.ndjson")
    ctx.run([binp, "guards", gc_path, gt_path], env=env, timeout=900)
    stub = open(os.path.join(vlib.SPEC_DIR, "C02Seeds.tla")).read()
    gres = _validate(ctx, gt_path, stub, "DecoderTrace: replayed guard states", traces=0)
    gevs = vlib.read_ndjson(gt_path)
    n_guard_ev = len(gevs) - 1
    ctx.cov["traces_validated_against_impl"] += n_guard_ev
    ctx.cov["evaluations"] += n_guard_ev
    stat = {}
    for e in gevs[1:]:
        k = "%s/%s->%s" % (e["guard"], e["pred"], e["outcome"])
        stat[k] = stat.get(k, 0) + 1
    ctx.cov["bounds"]["guard_replay"] = stat
    holes_real = 0
    ghits = {}
    for line, why in _bad_lines(gres):
        e = gevs[line - 1]
        fails = _failures_of(e)
        if why == "alloc":
            fails = [("alloc", e["site"], "")] + fails
        for phase, site, _ in fails:
            ghits.setdefault((e["dec"], site), []).append((e, why))
    items = []
    for (dec, site), lst in sorted(ghits.items()):
        e, why = lst[0]
        if e.get("data"):
            items.append((dec, base64.b64decode(e["data"]), e, len(lst), site))
    if items:
        # re-run each representative alone, from its bytes, before reporting
        redone = _replay_many(ctx, binp, env, [(dec, data) for dec, data, _, _, _ in items])
        seen_idx = set()
        for k, ev2, why2 in redone:
            dec, data, e, n, site = items[k]
            seen_idx.add(k)
            _report(ctx, ev2, why2, "guard %s state %s" % (e["guard"], json.dumps(g.cases[e["id"]]["x"], sort_keys=True)),
                    data, "Guards.tla %s (%d replayed states fail at this site)" % (e["pred"], n))
        for k, it in enumerate(items):
            if k not in seen_idx:
                ctx.notes.append("guard replay %s %s did not reproduce alone" % (it[0], it[4]))
    ctx.sample({"guard_case": g.cases[0]})

    # ------------------------------------------------------------ 2. the fault plan
    sdir = os.path.join(d, "seeds")
    os.makedirs(sdir)
    ctx.run([binp, "seeds", sdir], env=env, timeout=300)
    seeds = vlib.read_ndjson(os.path.join(sdir, "seeds.ndjson"))
    by_id = {s["id"]: s for s in seeds}
    present = {}
    for sd in seeds:
        for f in sd.get("formats") or []:
            present[f] = present.get(f, 0) + 1
    ctx.cov["formats_present"] = dict(sorted(present.items()))
    missing = [f for f in REQUIRED_FORMATS if f not in present]
    if missing:
        raise vlib.Infra("the seeds lack structures the decoders accept (format walker): %s" % ", ".join(missing))
    seeds_mod = _seeds_module(seeds)
    pl = ctx.tlc("DecoderPlan", files={"C02Seeds.tla": seeds_mod}, workers=1, timeout=900,
                 label="DecoderPlan (plan generation)")
    if not pl.ok:
        raise vlib.Infra("DecoderPlan.tla: TLC reports %s\n%s" % (pl.violated, pl.error_text[:1500]))
    plan = pl.cases
    if not plan:
        raise vlib.Infra("empty fault plan")
    planned = sum(c["n"] for c in plan)
    plan_path = os.path.join(d, "plan.ndjson")
    vlib.write_ndjson(plan_path, plan)
    ctx.sample({"plan_cell": plan[2], "seed": by_id[plan[2]["seed"]]})
    ctx.log("plan: %d seeds, %d cells, %d mutants" % (len(seeds), len(plan), planned))

    # ------------------------------------------------------------ 3. execute and validate
    trace = os.path.join(d, "trace.ndjson")
    diag = os.path.join(d, "diag.ndjson")
    _, out = ctx.run([binp, "run", sdir, plan_path, trace, diag], env=env, timeout=ctx.pick(900, 3000))
    ctx.log("harness: " + out.strip()[-200:])
    res = _validate(ctx, trace, seeds_mod, "DecoderTrace: fault plan outcomes", traces=planned)
    evs = vlib.read_ndjson(trace)
    cells = [e for e in evs if e["ev"] == "cell"]
    tot = {k: sum(c[k] for c in cells) for k in ("n", "nvalue", "nerror", "npanic", "ntimeout", "naccbad", "nover", "nacc")}
    ctx.cov["evaluations"] += tot["n"]
    ctx.cov["distinct_nontrivial"] = tot["n"] - sum(1 for c in cells if c["kind"] == "orig") + n_guard_ev
    ctx.cov["rule"] = ("planned mutants executed on the real decoder (distinct (seed, kind, value class, index) tuples, the "
                       "unmutated seeds excluded) plus replayed guard-model states; evaluations also counts the seeds")
    ctx.cov["exhaustive"] = True
    ctx.cov["bounds"].update({
        "seeds": len(seeds), "cells": len(plan), "mutants": planned,
        "mutated_prefix_limit": maxmlen or "none",
        "mutated_prefix_limit_whole_fonts_over_32KiB": bigmlen or "as above",
        "decoders": sorted(set(s["dec"] for s in seeds)),
        "outcomes": tot, "accessor_calls_ok": tot["nacc"],
        "exhaustive_means": "every truncation length, aligned word x 10 values, byte flip/0xFF/+1/-1 and table deletion of "
                            "the stated seeds below the mutated-prefix limit; guard models: all field values at the stated word size",
    })
    good = [e for e in evs if e["ev"] == "mut" and e["outcome"] in ("value", "error") and not e["badacc"]]
    if good:
        ctx.sample({"recorded_mutant": good[len(good) // 2]})
    worst = max(cells, key=lambda c: c["worstKiB"] * 16 - c["worstLen"])
    not_value = [by_id[c["seed"]]["name"] for c in cells if c["kind"] == "orig" and c["nvalue"] != 1]
    if not_value:
        ctx.notes.append("seeds that do not decode to a value unmutated: " + ", ".join(not_value))
    ctx.notes.append("largest allocation relative to the bound: %d KiB for %d bytes (seed %s, %s)" % (
        worst["worstKiB"], worst["worstLen"], by_id[worst["seed"]]["name"], worst["kind"]))

    # ------------------------------------------------------------ 4. group, isolate, report
    groups = {}
    for line, why in _bad_lines(res):
        e = evs[line - 1]
        fails = _failures_of(e)
        if why == "alloc":
            fails = [("alloc", "alloc~%d" % max(1, e["allocKiB"]).bit_length(), "")] + fails
        for phase, site, _ in fails:
            groups.setdefault((e["dec"], site), []).append(e)
    counts = {"%s %s" % k: len(v) for k, v in sorted(groups.items())}
    ctx.cov["bounds"]["failing_logged_mutants_per_site"] = counts
    reps = []
    for key, lst in sorted(groups.items()):
        lst.sort(key=lambda e: (by_id[e["seed"]]["len"], e["idx"]))
        for e in lst[:2]:
            reps.append({"seed": e["seed"], "kind": e["kind"], "v": e["v"], "idx": e["idx"]})
    uniq = []
    for r in reps:
        if r not in uniq:
            uniq.append(r)
    if uniq:
        bad = _isolate(ctx, binp, env, sdir, seeds_mod, uniq, "DecoderTrace: representatives alone")
        for ev2, why2 in bad:
            data = _mutant_bytes(ctx, binp, env, sdir, ev2)
            _report(ctx, ev2, why2, "%s %s v=%d idx=%d" % (by_id[ev2["seed"]]["name"], ev2["kind"], ev2["v"], ev2["idx"]),
                    data, "fault plan")
        redone = set()
        for ev2, _ in bad:
            for phase, site, _w in _failures_of(ev2):
                redone.add((ev2["dec"], site))
        for key in groups:
            if key not in redone and not key[1].startswith("alloc~"):
                ctx.notes.append("failure group %s %s did not reproduce alone" % key)

    # ------------------------------------------------------------ diagnostics (never a verdict)
    dsites = {}
    for e in vlib.read_ndjson(diag):
        k = "%s %s %s" % (e["dec"], e["name"], e["site"])
        dsites[k] = dsites.get(k, 0) + 1
    if dsites:
        ctx.notes.append("diagnostic only (shaping is not in the property's accessor list; see C07): panics in "
                         + "; ".join("%s x%d" % kv for kv in sorted(dsites.items())))
    ctx.notes.append("distinct failing (decoder, site) pairs reported: %d" % len(ctx._c02_seen))


def _replay_many(ctx, binp, env, items):
    """Run each (decoder, bytes) input alone in a fresh process and let TLC judge it;
    returns [(index of the item, event, why)] for the events judged BAD."""
    d = ctx.subdir("raw")
    seeds = []
    for k, (dec, data) in enumerate(items, 1):
        if len(data) == 0:
            raise vlib.Infra("cannot replay an empty input")
        open(os.path.join(d, "%d.bin" % k), "wb").write(data)
        seeds.append({"id": k, "name": "replay", "dec": dec, "len": len(data), "mlen": len(data), "ntab": 0, "ngid": 0, "ndict": 0, "ncnt": 0, "ncpair": 0})
    vlib.write_ndjson(os.path.join(d, "seeds.ndjson"), seeds)
    # SeedsOK of the trace spec is only required in plan mode; any seed list is fine for replay mode
    bad = _isolate(ctx, binp, env, d, _seeds_module(seeds),
                   [{"seed": s["id"], "kind": "orig", "v": 0, "idx": 0} for s in seeds], "DecoderTrace: replay of inputs")
    return [(ev["seed"] - 1, ev, why) for ev, why in bad]


def replay(ctx, obj):
    ctx._c02_seen = set()
    case = obj["case"]
    binp = ctx.build("c02")
    env = {"C02_BUDGET_KIB": str(_budget_kib()), "C02_TIMEOUT_MS": os.environ.get("C02_TIMEOUT_MS", "20000")}
    data = base64.b64decode(case["data_b64"])
    bad = _replay_many(ctx, binp, env, [(case["dec"], data)])
    for _, ev2, why2 in bad:
        _report(ctx, ev2, why2, case.get("seed", "replay"), data, "replay")
    if not bad:
        ctx.log("the input no longer breaks the contract")
