"""C06 -- GSUB/GPOS lookup application follows OpenType semantics (reference model Shaper.tla).

R: for every lookup-list family of lib/shaper_cat.py, TLC explores Shaper.tla over
   (catalogue entry x every input string up to MaxLen over the family's alphabet), checks the design
   invariants (text conservation, stack discipline, empty stack at the end, position bounds) in every
   state and prints the reference result of every behaviour; the harness (cmd/c06) builds the same tables
   through the public gtab structs, runs gtab.NewContext(...).Apply on the same input and compares glyph
   ids, text, offsets and advances with TLC's expectation -- inside the defined region only.
V: seeded random lookup lists and longer strings are run on the real engine first; TLC then executes the
   specification on the recorded inputs and must agree with the recorded outputs (invariant Agrees).
"""
import concurrent.futures
import json
import os
import random

import shaper_cat as sc
import vlib

LEVEL = "model_checking"
MANIFEST = {
    "text": "TLC model-checks the reference semantics Shaper.tla (all GSUB 1-6,8 / GPOS 1,2,4,6,7,8 subtable kinds, "
            "lookup flags, nested actions with live positions) exhaustively over catalogue x all input strings up to "
            "length 4 (quick) / 5-6 (thorough) and prints the reference result of every behaviour; the real "
            "gtab.Context.Apply is run on the same tables and inputs and must produce exactly that result wherever "
            "the spec marks the behaviour as defined (families: simple, lig, order, ctx, ctxnest, ctxskip, ctxfilt, "
            "ctxtrail, chain incl. class 0 and reverse chaining, gpos, block, long = repeated patterns of 60-140 glyphs, bigid). Random lookup lists with arbitrary GDEF "
            "data / longer strings go the other way: real outputs are recorded and TLC checks them against the spec. "
            "The repository's 117 GSUB test cases, lifted from real gtab tables, validate the spec in every run.",
    "note": "Trusted: TLC, the table builder of the harness (public gtab structs), the transcription of OpenType "
            "semantics in Shaper.tla (DESIGN.md App. A). Equality is asserted only inside the spec's defined region; "
            "GSUB 8 is applied left to right like the code's documented TODO and marked undefined where order matters.",
    "technique": "TLA+ reference model (Shaper.tla) model-checked by TLC; TLC-generated expectations replayed into "
                 "gtab.Context.Apply; recorded real outputs validated by TLC",
}

INVS = ["TextConserved", "StackOK", "StackEmptyAtEnd", "PosOK", "BudgetOK"]

# family -> (names, alphabet, maxlen quick, maxlen thorough, deep)
PLANS = [
    ("simple", ["simple"], [1, 2, 3, 4, 5, 6], 3, 4),
    ("lig", ["lig", "order"], [1, 2, 4], 4, 6),
    ("lig6", ["lig"], [1, 2, 4, 6], 3, 5),
    ("ctx", ["ctx"], [1, 2, 4], 3, 5),
    ("ctxnest", ["ctxnest"], [1, 2], 6, 8),
    ("ctxskip", ["ctxskip"], [1, 4], 6, 8),
    ("chain", ["chain"], [1, 2, 4], 4, 5),
    ("gpos", ["gpos"], [1, 2, 3, 4, 5], 3, 4),
    ("ctxfilt", ["ctxfilt"], [1, 4, 5], 4, 5),
    ("ctxtrail", ["ctxtrail"], [1, 2, 4, 5], 4, 5),
    ("block", ["block"], [1, 2, 4], 4, 5),
    ("long", ["long"], [1], 0, 0),                    # explicit long inputs (repeated patterns)
    ("bigid", ["bigid"], [100, 65535], 2, 2),         # explicit inputs over the whole 16-bit range
]


def _cfg(base, invs, emit):
    return base + "".join("INVARIANT %s\n" % i for i in invs) + ("INVARIANT %s\n" % emit if emit else "")


def _kinds(case):
    ks = set()
    for L in case["ll"]:
        for st in L["subs"]:
            k = st["k"]
            if k == "ctx":
                k = "%s%d" % ("chain" if st.get("chain") else "ctx", st.get("fmt", 3))
            ks.add(k)
    return sorted(ks)


def run_family(ctx, binp, name, cases, alphabet, maxlen, workers, report, timeout=1500):
    """TLC over the family, then replay into the real engine.  report(kind, result, case)."""
    d = ctx.subdir("fam-" + name)
    mod, cfg = sc.render_module("ShaperMC", cases, alphabet, maxlen)
    res = ctx.tlc("ShaperMC", cfg="ShaperMC.cfg", workers=workers, timeout=timeout,
                  files={"ShaperMC.tla": mod, "ShaperMC.cfg": _cfg(cfg, INVS, "Emit")},
                  label="Shaper/%s MaxLen=%d alphabet=%s" % (name, maxlen, alphabet))
    if res.violated:
        raise vlib.Infra("Shaper.tla violates %s on family %s (the spec is wrong, not the code):\n%s"
                         % (res.violated, name, res.error_text[:2000]))
    cpath = os.path.join(d, "cases.json")
    json.dump(cases, open(cpath, "w"))
    epath = os.path.join(d, "expect.ndjson")
    vlib.write_ndjson(epath, res.cases)
    opath = os.path.join(d, "out.ndjson")
    ctx.run([binp, "replay", cpath, epath, opath], timeout=1200)
    byid = {c["id"]: c for c in cases}
    summary = None
    for r in vlib.read_ndjson(opath):
        if r["kind"] == "summary":
            summary = r
        else:
            report(r["kind"], r, byid[r["cid"]])
    if summary is None or summary["n"] != len(res.cases):
        raise vlib.Infra("harness did not process all %d expectations of family %s" % (len(res.cases), name))
    if res.cases:
        ctx.sample({"family": name, "expectation_from_TLC": res.cases[len(res.cases) // 2]})
    return summary


def _confirm(ctx, binp, case, r):
    """Re-run one expectation alone against the real engine (reproduction)."""
    d = ctx.subdir("confirm")
    cpath = os.path.join(d, "cases.json")
    json.dump([case], open(cpath, "w"))
    epath = os.path.join(d, "expect.ndjson")
    vlib.write_ndjson(epath, [{"cid": case["id"], "input": r["input"], "defined": r["defined"], "out": r.get("want") or []}])
    opath = os.path.join(d, "out.ndjson")
    ctx.run([binp, "replay", cpath, epath, opath])
    rs = [x for x in vlib.read_ndjson(opath) if x["kind"] != "summary"]
    return rs[0] if rs else None


def make_reporter(ctx, binp, pid, kinds_wanted):
    seen = {}

    def report(kind, r, case):
        if kind not in kinds_wanted:
            return
        if kind in ("panic", "hang", "textloss") and pid == "C06" and not r["defined"]:
            return            # outside the region only C07's clauses apply
        key = (kind, tuple(_kinds(case)))
        seen[key] = seen.get(key, 0) + 1
        if seen[key] > 2:
            return
        again = _confirm(ctx, binp, case, r)
        # the isolated run may classify the same failure more precisely (a mismatch that is also a loss of text)
        if again is None or again["kind"] not in ("mismatch", "panic", "hang", "textloss"):
            raise vlib.Infra("a %s did not reproduce in isolation (case %d)" % (kind, case["id"]))
        kind = again["kind"]
        r = dict(r, got=again.get("got", r.get("got")), msg=again.get("msg", r.get("msg")))
        f = lambda gs: [(g["g"], g["t"], g["x"], g["y"], g["adv"]) for g in gs or []]
        what = {
            "mismatch": "gtab.Context.Apply differs from the reference semantics",
            "panic": "gtab.Context.Apply panicked: %s" % r.get("msg"),
            "hang": "gtab.Context.Apply did not terminate",
            "textloss": "gtab.Context.Apply lost or duplicated input text",
        }[kind]
        what += " | family %s, subtables %s, input %s | reference (g,text,x,y,adv) %s | real %s" % (
            case["family"], _kinds(case), r["input"], f(r.get("want")), f(r.get("got")))
        ctx.violation(what, sig={"kind": kind, "subtables": "+".join(_kinds(case)), "family": case["family"]},
                      case={"case": case, "input": r["input"], "defined": r["defined"], "want": r.get("want"),
                            "got": r.get("got")})
    return report


def random_v(ctx, binp, n, maxlen, report, chunk=400):
    """V: record real outputs of random cases, let TLC judge them."""
    rng = random.Random(ctx.seed * 7919 + 13)
    done = 0
    k = 0
    tot = {"n": 0, "defined": 0}
    while done < n:
        m = min(chunk, n - done)
        cases = [sc.random_case(rng, i + 1, maxlen) for i in range(m)]
        d = ctx.subdir("rand")
        cpath = os.path.join(d, "cases.json")
        json.dump(cases, open(cpath, "w"))
        rpath = os.path.join(d, "rec.ndjson")
        ctx.run([binp, "record", cpath, rpath])
        recs = {r["cid"]: r for r in vlib.read_ndjson(rpath)}
        judged = []
        for c in cases:
            r = recs[c["id"]]
            if r["kind"] != "ok":
                report(r["kind"], {"kind": r["kind"], "cid": c["id"], "input": c["inputs"][0], "defined": False,
                                   "msg": r.get("msg"), "got": r.get("got")}, c)
                continue
            c2 = dict(c)
            c2["expect"] = r.get("got") or []
            judged.append(c2)
        mod, cfg = sc.render_module("ShaperMC", judged, [1], 0)
        res = ctx.tlc("ShaperMC", cfg="ShaperMC.cfg", workers=min(8, ctx.workers), timeout=1500,
                      files={"ShaperMC.tla": mod, "ShaperMC.cfg": _cfg(cfg, INVS, "EmitV")},
                      label="Shaper/random V chunk %d" % k)
        if res.violated:
            raise vlib.Infra("Shaper.tla violates %s on random cases:\n%s" % (res.violated, res.error_text[:2000]))
        if len(res.cases) != len(judged):
            raise vlib.Infra("TLC judged %d of %d recorded cases" % (len(res.cases), len(judged)))
        byid = {c["id"]: c for c in judged}
        for v in res.cases:
            tot["n"] += 1
            tot["defined"] += 1 if v["defined"] else 0
            if v["defined"] and not v["agree"]:
                c = byid[v["cid"]]
                report("mismatch", {"kind": "mismatch", "cid": c["id"], "input": c["inputs"][0], "defined": True,
                                    "want": v["out"], "got": c["expect"]}, c)
        ctx.cov["traces_validated_against_impl"] += len(judged)
        if k == 0 and judged:
            ctx.sample({"random_case_recorded_then_judged_by_TLC": {"ll": judged[0]["ll"], "input": judged[0]["inputs"][0],
                                                                    "real_output": judged[0]["expect"]}})
        done += m
        k += 1
    return tot


def repo_tests(ctx, binp, report):
    """Happy path: the repository's own GSUB test cases (built with the lookup DSL) are lifted into abstract
    cases; the specification must reproduce the documented outcome of every test of sections 1-3 (a
    disagreement there is an error of the specification, not a finding), and the real engine is judged
    by TLC on all of them."""
    d = ctx.subdir("repo")
    lp = os.path.join(d, "lifted.json")
    ctx.run([binp, "lift-tests", lp])
    lifted = [x for x in json.load(open(lp)) if x.get("case")]
    cases = [x["case"] for x in lifted]
    cp = os.path.join(d, "cases.json")
    json.dump(cases, open(cp, "w"))
    rp = os.path.join(d, "rec.ndjson")
    ctx.run([binp, "record", cp, rp])
    recs = {r["cid"]: r for r in vlib.read_ndjson(rp)}
    for c in cases:
        c["expect"] = recs[c["id"]].get("got") or []
    mod, cfg = sc.render_module("ShaperMC", cases, [1], 0)
    res = ctx.tlc("ShaperMC", cfg="ShaperMC.cfg", workers=4, timeout=900,
                  files={"ShaperMC.tla": mod, "ShaperMC.cfg": _cfg(cfg, INVS, "EmitV")},
                  label="Shaper on the repository's %d GSUB test cases" % len(cases))
    if res.violated or len(res.cases) != len(cases):
        raise vlib.Infra("Shaper.tla failed on the repository's test cases: %s" % (res.violated or "missing results"))
    byid = {x["case"]["id"]: x for x in lifted}
    ndef = 0
    for v in res.cases:
        x = byid[v["cid"]]
        spec = [g["g"] for g in v["out"]]
        sec = x["name"].split("_")[0]
        if sec in ("1", "2", "3") and not v["defined"]:
            raise vlib.Infra("test %s of section %s is outside the spec's defined region" % (x["name"], sec))
        if v["defined"]:
            ndef += 1
            if spec != x["want"]:
                raise vlib.Infra("Shaper.tla contradicts the repository's documented outcome of test %s: spec %s, "
                                 "documented %s" % (x["name"], spec, x["want"]))
            if not v["agree"]:
                c = x["case"]
                report("mismatch", {"kind": "mismatch", "cid": c["id"], "input": c["inputs"][0], "defined": True,
                                    "want": v["out"], "got": c["expect"]}, c)
    ctx.cov["traces_validated_against_impl"] += len(cases)
    ctx.cov["repo_tests"] = {"lifted": len(cases), "inside_defined_region": ndef}
    return {"n": len(cases), "defined": ndef}


def vacuity_audit(ctx):
    """-coverage 1 over a sample of every family: which parts of Shaper.tla were never evaluated?"""
    rng = random.Random(ctx.seed)
    cases = []
    for name, fams, alpha, ql, tl in PLANS:
        cs = sc.build(fams)
        rng.shuffle(cs)
        cases += cs[:25]
    cases += sc.build(["malformed"])          # the total-semantics branches (C07's subject)
    for i, c in enumerate(cases):
        c["id"] = i + 1
    mod, cfg = sc.render_module("ShaperMC", cases, [1, 2, 3, 4, 5, 6], 3)
    res = ctx.tlc("ShaperMC", cfg="ShaperMC.cfg", workers=ctx.workers, timeout=1500, coverage=True,
                  files={"ShaperMC.tla": mod, "ShaperMC.cfg": _cfg(cfg, INVS, None)},
                  label="Shaper vacuity audit (-coverage 1)")
    if res.violated:
        raise vlib.Infra("Shaper.tla violates %s in the coverage run" % res.violated)
    zero = sorted(set(z for z in res.coverage_zero_expr if z.endswith("module Shaper")))
    ctx.cov["vacuity"] = {"actions_never_taken": res.coverage_zero, "shaper_expressions_never_evaluated": len(zero),
                          "first": zero[:12]}
    if res.coverage_zero:
        raise vlib.Infra("actions never taken in the coverage run: %s" % res.coverage_zero)


def run(ctx):
    binp = ctx.build("c06")
    report = make_reporter(ctx, binp, "C06", ("mismatch", "panic", "hang", "textloss"))
    rt0 = repo_tests(ctx, binp, report)
    plans = []
    only = os.environ.get("VERIF_C06_ONLY")           # development aid: a subset of the plans (no evidence)
    for name, fams, alpha, ql, tl in PLANS:
        if only and name not in only.split(","):
            continue
        cases = sc.build(fams, deep=not ctx.quick())
        plans.append((name, cases, alpha, ql if ctx.quick() else tl))
    tot = {"n": 0, "defined": 0}
    par = 3
    w = max(2, ctx.workers // par)
    with concurrent.futures.ThreadPoolExecutor(max_workers=par) as ex:
        futs = [ex.submit(run_family, ctx, binp, n, c, a, l, w, report) for n, c, a, l in plans]
        for f in futs:
            s = f.result()
            tot["n"] += s["n"]
            tot["defined"] += s["defined"]
    rt = random_v(ctx, binp, ctx.pick(400, 6000), ctx.pick(10, 16), report)
    if not ctx.quick():
        vacuity_audit(ctx)
    ctx.cov["evaluations"] = tot["n"] + rt["n"] + rt0["n"]
    ctx.cov["distinct_nontrivial"] = tot["defined"] + rt["defined"] + rt0["defined"]
    ctx.cov["outside_region"] = tot["n"] - tot["defined"] + rt["n"] - rt["defined"]
    ctx.cov["traces_validated_against_impl"] += tot["n"]
    ctx.cov["rule"] = ("one case = (lookup list, GDEF, order, input string); exhaustive over catalogue x all strings up to "
                       "MaxLen per family, plus seeded random cases; distinct_nontrivial = cases inside the defined region "
                       "(compared for exact equality of glyph ids, text, offsets, advances)")
    ctx.cov["exhaustive"] = True
    ctx.cov["bounds"] = {n: {"catalogue": len(c), "alphabet": a, "MaxLen": l} for n, c, a, l in plans}
    ctx.assumptions += [
        "equality is asserted only inside the defined region computed by Shaper.tla (DESIGN.md App. A.6)",
        "GPOS 3/5, device tables and vertical advances are outside the model (declared unimplemented by the library)",
    ]


def replay(ctx, obj):
    binp = ctx.build("c06")
    c = obj["case"]
    r = _confirm(ctx, binp, c["case"], {"input": c["input"], "defined": c["defined"], "want": c.get("want")})
    if r is not None:
        ctx.violation("replayed: %s on input %s" % (r["kind"], c["input"]),
                      sig={"kind": r["kind"], "subtables": "+".join(_kinds(c["case"])), "family": c["case"]["family"]},
                      case=c)
