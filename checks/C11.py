"""C11 -- TrueType glyph data round-trips and decodes as the specification says.

1. TLC, exhaustive: Glyf.tla (format functions of GlyfOps.tla, written from the OpenType glyf/loca
   chapters) -- Decode(SpecEncode(shape)) = shape, loca invariants, round trip for every writer choice
   (padding multiple, loca version), FixComponents changes only the glyphIndex fields; GlyfLoca.cfg: the
   layout function on size vectors at the 64 KiB / 128 KiB boundaries with real sizes.
2. R: TLC enumerates shapes (simple glyphs: every flag byte x run/repeat form x contour split x
   instructions x padding x loca version, zero contours, 1/256 points, zero short/long deltas; composite
   glyphs: chains of 1..4 records, each record independently over argument size x transform size x
   WE_HAVE_INSTRUCTIONS, numberOfContours over {-1,-2,-3,-128,-32768}; glyph sets over a palette; glyph
   sets of exactly 131070 / 131072 ... bytes) and prints the SPEC's encoding as bytes.  The harness feeds
   them to glyf.Decode, Glyphs.Encode, glyf.Decode, SimpleGlyph.Decode, Components, FixComponents and
   records one event per call.
   TLC also enumerates CALL HISTORIES (Decode, then every sequence of Fix / Put / Components / Encode /
   Decode on sets with composite glyphs, incl. Fix;Fix on one glyph with two maps, Fix;Components,
   Fix;Encode, Encode;Encode-of-the-reversed-set); the harness replays them and re-observes after every call
   the whole glyph set, all Components() lists, all earlier FixComponents results and all Encode results
   handed out (bytes, and a fresh Decode of them) -- GlyfTrace: nothing the caller holds changes.  A writer
   whose results share one buffer is a must-fail configuration of Glyf.tla (HistInv must be violated).
   The count maxima (65535/65536 points, instructionLength 0xFFFF, 600 components; thorough: 32767
   contours) are printed by TLC in every run.
3. V: glyph sets built through the library API (up to > 128 KiB; exactly 65534 and 65535 glyphs; glyf tables
   beyond 2^24 bytes in digest mode, where TLC recomputes every offset from the raw loca bytes) go through
   Glyphs.Encode -> glyf.Decode -> per-glyph calls, recorded the same way.
Every recorded event is judged by TLC against GlyfTrace.tla, which decodes the logged bytes with the
spec's decoder.  A failed check (BAD line) is re-recorded in isolation and re-validated before it counts.
"""
import collections
import concurrent.futures
import json
import os
import re
import threading

import vlib

LEVEL = "model_checking"
MANIFEST = {
    "text": "TLC exhaustively checks Glyf.tla/GlyfOps.tla (glyf/loca format functions written from the OpenType "
            "specification: loca layout at the real 64K/128K boundaries, flag expansion, coordinate decoding, "
            "component records; Decode(Encode(shape)) = shape, round trip for every writer choice, FixComponents leaves "
            "its source and all earlier results unchanged). TLC then "
            "enumerates glyph-set shapes and prints the spec's encoding as bytes; the harness drives glyf.Decode, "
            "Glyphs.Encode, SimpleGlyph.Decode, Components and FixComponents on them, replays TLC-generated call "
            "histories re-observing all held glyphs after every call (and runs glyph sets built "
            "through the library API, including > 128 KiB), and every recorded call is validated by TLC against "
            "GlyfTrace.tla, which re-decodes the logged bytes with the spec's decoder.",
    "note": "Trusted: TLC, the JSON projection of glyph values in the harness. Coordinates that leave the int16 "
            "range, odd loca offsets, non-increasing endPtsOfContours, contradictory transform flags and "
            "component ids without image under FixComponents are outside the domain (no demand). Trailing padding "
            "kept inside a simple glyph's body is accepted. golang.org/x/image is not used as a second stream.",
    "technique": "TLA+ model checking (TLC) of Glyf.tla + replay of TLC-generated encodings into package glyf + "
                 "trace validation of every recorded call against GlyfTrace.tla",
}

_BAD = re.compile(r'^<<"BAD", (\d+), "([^"]*)", "([^"]*)"(?:, (-?\d+))?>>')
_STATS = re.compile(r'^<<"STATS", (\d+), (\d+), (\d+)>>')

CALLS = {"decode": "glyf.Decode", "encode": "Glyphs.Encode", "simple": "SimpleGlyph.Decode",
         "comps": "Glyph.Components", "fix": "Glyph.FixComponents",
         "decodebig": "glyf.Decode", "encodebig": "Glyphs.Encode",
         "observe": "state after a call history", "recheck": "source glyph after Glyph.FixComponents"}


def _cfg(kind, salt, runs=0, comps=0, glyphs=0, steps=0, full=True, with256=False, targets=(), invs=None,
         view=False, shared=False):
    invs = invs or ["EncodeDecode", "PointsMeaning", "LocaInv", "Emit"]
    return ("CONSTANTS\n  Kind = \"%s\"\n  Salt = %d\n  MaxRuns = %d\n  MaxComps = %d\n  MaxGlyphs = %d\n"
            "  MaxSteps = %d\n  FinishFull = %s\n  With256 = %s\n  Targets = {%s}\n  SharedBuf = %s\n"
            "INIT Init\nNEXT Next\n%s%s"
            "CHECK_DEADLOCK FALSE\n" % (
                kind, salt, runs, comps, glyphs, steps, "TRUE" if full else "FALSE",
                "TRUE" if with256 else "FALSE", ", ".join(str(t) for t in targets),
                "TRUE" if shared else "FALSE", "VIEW view\n" if view else "",
                "".join("INVARIANT %s\n" % i for i in invs)))


def _locked_subdir(ctx):
    """ctx.subdir is not thread safe; TLC runs of this check are started from several threads."""
    lock = threading.Lock()
    orig = ctx.subdir

    def subdir(name=None):
        with lock:
            return orig(name)
    ctx.subdir = subdir


def _account(ctx, res, label):
    ctx.cov["states"] += res.distinct
    ctx.cov["transitions"] += res.generated
    ctx.cov["tlc_runs"].append({"label": label, "cmd": res.cmd, "generated": res.generated,
                                "distinct": res.distinct, "diameter": res.diameter,
                                "wall_s": round(res.wall, 2), "cases": len(res.cases),
                                "violated": res.violated})


def _model(ctx, label, cfgtext, workers, timeout):
    res = ctx.tlc("Glyf", cfg="GlyfX.cfg", files={"GlyfX.cfg": cfgtext}, workers=workers, timeout=timeout,
                  count=False, label=label)
    if not res.ok:
        raise vlib.Infra("Glyf.tla (%s) violates %s on the model -- the spec is wrong, not the code:\n%s"
                         % (label, res.violated, res.error_text[:1500]))
    return res


def _must_fail(ctx, label, cfgtext, workers, timeout):
    """The wrong design (all Encode results share one buffer) must be refuted by TLC: the invariant bites."""
    res = ctx.tlc("Glyf", cfg="GlyfF.cfg", files={"GlyfF.cfg": cfgtext}, workers=workers, timeout=timeout,
                  count=False, label=label)
    if res.violated != "HistInv":
        raise vlib.Infra("HistInv does not refute a writer with a shared scratch buffer (got %s) -- the "
                         "invariant is vacuous" % res.violated)
    res.violated = None      # expected
    return res


def _gen(ctx, label, cfgtext, simulate=None, depth=None, timeout=900, expect=1):
    res = ctx.tlc("Glyf", cfg="GlyfG.cfg", files={"GlyfG.cfg": cfgtext}, workers=1, simulate=simulate,
                  depth=depth, timeout=timeout, count=False, label=label)
    if not res.ok:
        raise vlib.Infra("generation run %s violated %s (spec encoder and decoder disagree):\n%s"
                         % (label, res.violated, res.error_text[:1500]))
    if len(res.cases) < expect:
        raise vlib.Infra("generation run %s produced only %d cases" % (label, len(res.cases)))
    return res


def _trace_run(ctx, path, label, timeout):
    """Validate one trace file.  Returns (events, bad list, nodemand)."""
    res = ctx.tlc("GlyfTrace", trace_file=path, timeout=timeout, count=False, label=label)
    if res.rc != 0 or res.violated or res.rejected_line is not None:
        raise vlib.Infra("trace validation did not consume the trace (%s, line %s):\n%s"
                         % (res.violated, res.rejected_line, res.error_text[-2000:]))
    bad, stats = {}, None
    for line in res.prints:
        m = _BAD.match(line)
        if m:
            ln = int(m.group(1))
            bad.setdefault(ln, (ln, m.group(2), m.group(3), m.group(4)))
            continue
        m = _STATS.match(line)
        if m:
            stats = tuple(int(x) for x in m.groups())
    if stats is None:
        raise vlib.Infra("trace validation printed no STATS line")
    return res, stats, sorted(bad.values())


def _record_and_validate(ctx, binp, mode, cases, d, name, timeout):
    cpath = os.path.join(d, name + ".cases")
    tpath = os.path.join(d, name + ".ndjson")
    vlib.write_ndjson(cpath, cases)
    ctx.run([binp, mode, cpath, tpath], timeout=timeout)
    res, stats, bad = _trace_run(ctx, tpath, "GlyfTrace: " + name, timeout)
    found = []
    layout = []      # what Glyphs.Encode chose for the large inputs (measured, for the evidence file)
    with open(tpath) as f:
        for line in f:
            if '"ev":"encodebig"' in line[:200]:
                e = json.loads(line)
                layout.append({"case": e["case"], "glyf_bytes": e["glyflen"], "loca_version": e["fmt"],
                               "glyphs": len(e["loca"]) // 4 - 1})
            elif len(line) > 100000 and '"ev":"encode"' in line[:200]:
                e = json.loads(line)
                layout.append({"case": e["case"], "glyf_bytes": len(e["glyf"]), "loca_version": e["fmt"],
                               "glyphs": len(e["loca"]) // (4 if e["fmt"] == 1 else 2) - 1})
    if bad:
        events = vlib.read_ndjson(tpath)
        for ln, why, cls, idx in bad:
            e = events[ln - 1]
            found.append({"case": e["case"], "ev": e["ev"], "why": why, "cls": cls, "i": e.get("i"),
                          "detail": (e.get("err") or "")[:160]})
    os.remove(tpath)
    os.remove(cpath)
    return res, stats, found, layout


def _sig(f):
    return {"call": CALLS.get(f["ev"], f["ev"]), "why": f["why"], "class": f["cls"]}


def _replay_case(ctx, case, expect=None):
    """Re-record one case alone, validate it alone, report every failed check that shows again."""
    binp = ctx.build("c11")
    d = ctx.subdir("replay")
    cp = os.path.join(d, "case.json")
    json.dump(case, open(cp, "w"))
    tp = os.path.join(d, "trace.ndjson")
    ctx.run([binp, "one", cp, tp])
    res, stats, bad = _trace_run(ctx, tp, "GlyfTrace: replay of one case", 600)
    _account(ctx, res, "GlyfTrace: replay of one case")
    events = vlib.read_ndjson(tp)
    sigs = []
    for ln, why, cls, idx in bad:
        e = events[ln - 1]
        f = {"case": case.get("id"), "ev": e["ev"], "why": why, "cls": cls, "i": e.get("i"),
             "detail": (e.get("err") or "")[:160]}
        sg = _sig(f)
        if sg in sigs:
            continue
        sigs.append(sg)
        if expect is not None and sg != expect:
            continue
        small = {k: v for k, v in e.items() if k not in ("glyphs", "glyf", "loca", "glyph", "results", "rle")}
        if case.get("ops"):
            small["history"] = [o["op"] + (str(o["i"]) if o["i"] else "") for o in case["ops"]]
        size = len(case.get("glyf") or [])
        what = ("%s disagrees with the glyf/loca specification (GlyfTrace clause %s, input class %s): "
                "event %s; case %s (%s, %s)" % (
                    sg["call"], why, cls, json.dumps(small)[:500], case.get("id"),
                    case.get("src"), ("glyf table of %d bytes, loca version %s, bytes %s" % (
                        size, case.get("fmt"), json.dumps(case.get("glyf"))[:300])) if case.get("src") == "tlc"
                    else "library-built set " + json.dumps(case.get("lib"))))
        ctx.violation(what, sig=sg, case=case)
    return sigs


def _lib_cases(ctx):
    s = ctx.seed * 1000
    specs = [
        {"n": 1, "target": 0, "seed": s + 1, "nilevery": 0, "compodds": 0, "zerobare": 0},
        {"n": 2, "target": 0, "seed": s + 2, "nilevery": 0, "compodds": 0, "zerobare": 0},
        {"n": 7, "target": 0, "seed": s + 3, "nilevery": 0, "compodds": 3, "zerobare": 0},
        {"n": 60, "target": 0, "seed": s + 4, "nilevery": 0, "compodds": 3, "zerobare": 0},
        {"n": 40, "target": 0, "seed": s + 5, "nilevery": 3, "compodds": 4, "zerobare": 0},
        {"n": 5, "target": 0, "seed": s + 6, "nilevery": 0, "compodds": 0, "zerobare": 1},
        {"n": 9, "target": 0, "seed": s + 7, "nilevery": 0, "compodds": 0, "zerobare": 2},
        {"n": 30, "target": 65534, "seed": s + 8, "nilevery": 0, "compodds": 6, "zerobare": 0},
        {"n": 30, "target": 65536, "seed": s + 9, "nilevery": 0, "compodds": 6, "zerobare": 0},
        {"n": 25, "target": 131070, "seed": s + 10, "nilevery": 0, "compodds": 6, "zerobare": 0},
        {"n": 25, "target": 131072, "seed": s + 11, "nilevery": 0, "compodds": 6, "zerobare": 0},
        {"n": 2800, "target": 0, "seed": s + 12, "nilevery": 0, "compodds": 9, "zerobare": 0},
        # the largest legal glyph counts (mostly empty glyphs; logged run-length encoded)
        {"n": 65534, "target": 0, "seed": s + 13, "nilevery": 0, "compodds": 4, "zerobare": 0, "sparse": 7},
        {"n": 65535, "target": 0, "seed": s + 14, "nilevery": 0, "compodds": 4, "zerobare": 0, "sparse": 7},
        # every byte of the long loca entry: glyf tables beyond 2^20 and 2^24 bytes (digest mode: only the
        # raw loca bytes are logged)
        {"n": 5, "target": 0, "seed": s + 15, "nilevery": 0, "compodds": 0, "zerobare": 0, "huge": 18},
        {"n": 12, "target": 0, "seed": s + 16, "nilevery": 3, "compodds": 0, "zerobare": 0, "huge": 257},
    ]
    if not ctx.quick():
        k = 20
        for n in (3, 12, 100, 500, 1400, 2000, 3500):
            for j in range(3):
                k += 1
                specs.append({"n": n, "target": 0, "seed": s + k, "nilevery": (0, 2, 5)[j],
                              "compodds": (4, 0, 7)[j], "zerobare": 0})
        for t in (65532, 65538, 131068, 131074, 200000, 262144):
            k += 1
            specs.append({"n": 10 + k, "target": t, "seed": s + k, "nilevery": 0, "compodds": 5, "zerobare": 0})
        specs.append({"n": 65535, "target": 0, "seed": s + 99, "nilevery": 0, "compodds": 3, "zerobare": 0,
                      "sparse": 40})
        specs.append({"n": 65533, "target": 0, "seed": s + 98, "nilevery": 0, "compodds": 3, "zerobare": 0,
                      "sparse": 3})
        specs.append({"n": 300, "target": 0, "seed": s + 97, "nilevery": 2, "compodds": 0, "zerobare": 0,
                      "huge": 520})
    for sp in specs:
        sp.setdefault("sparse", 0)
        sp.setdefault("huge", 0)
    return [{"id": 900000 + i, "src": "lib", "lib": sp} for i, sp in enumerate(specs)]


def run(ctx):
    _locked_subdir(ctx)
    # several single-worker JVMs run side by side: keep their collectors small
    os.environ.setdefault("JAVA_TOOL_OPTIONS", "-XX:ParallelGCThreads=2")
    salt = ctx.seed % 9973
    ctx.assumptions += [
        "inputs are valid encodings by the OpenType glyf/loca chapters as transcribed in GlyfOps.tla; "
        "coordinates stay inside int16, loca offsets are even, endPtsOfContours strictly increase, at most one "
        "transform flag per component; when WE_HAVE_INSTRUCTIONS is set on an earlier record but not on the last, "
        "both readings (last record decides / any record decides) are accepted for a decoder, but Encode -> Decode "
        "of an in-memory glyph must still return its instructions",
        "FixComponents is called with maps that are total on the glyph's component ids",
        "padding kept in a simple glyph's body by the decoder would be accepted (the property does not forbid it)",
        "a header-only zero-contour glyph and one with instructionLength = 0 are identified (format ambiguity "
        "under 4-byte padding, found by TLC on the model)",
    ]
    quick = ctx.quick()
    pool = concurrent.futures.ThreadPoolExecutor(max_workers=max(2, min(8, ctx.workers)))
    w_model = max(1, ctx.workers // 2)

    # ---- 1. the design: exhaustive model checking; 2. generation -- all TLC runs concurrently
    model_invs = ["EncodeDecode", "LocaInv", "RoundTrip", "FixInv", "HistInv"]
    jobs = {}
    jobs["model"] = pool.submit(_model, ctx, "Glyf model: palette sets, all writer choices",
                                _cfg("set", salt, glyphs=ctx.pick(2, 3), steps=4, invs=model_invs, view=True), w_model, ctx.pick(1500, 3600))
    jobs["mustfail"] = pool.submit(_must_fail, ctx, "Glyf with a shared Encode buffer (must violate HistInv)",
                                   _cfg("ops", salt, steps=4, invs=["HistInv"], shared=True), 2, 900)
    jobs["loca"] = pool.submit(_model, ctx, "Glyf loca layout at 64K/128K boundaries",
                               _cfg("loca", salt, glyphs=ctx.pick(4, 5), invs=["LocaLayout"]), 2, 900)
    gens = [
        ("simple-1run", _cfg("simple", salt, runs=1, with256=True), None, None, 1000),
        ("simple-sim", _cfg("simple", salt, runs=ctx.pick(4, 6), with256=False), ctx.pick(60, 600), 12, 100),
        ("simple-sim256", _cfg("simple", salt, runs=ctx.pick(3, 4), with256=True), ctx.pick(12, 120), 12, 50),
        ("comp-2", _cfg("comp", salt, comps=2), None, None, 500),
        ("comp-sim", _cfg("comp", salt, comps=4), ctx.pick(60, 900), 8, 100),
        ("set-2", _cfg("set", salt, glyphs=2), None, None, 300),
        ("set-sim", _cfg("set", salt, glyphs=ctx.pick(4, 6)), ctx.pick(120, 1500), 12, 100),
        # call histories: Decode, then every sequence of Fix / Put / Components / Encode / Decode
        ("ops", _cfg("ops", salt, steps=ctx.pick(4, 5),
                     invs=["EncodeDecode", "LocaInv", "RoundTrip", "FixInv", "HistInv", "EmitOps"]), None, None, 300),
        # the count maxima of the format: 65535 / 65536 points, instructionLength 0xFFFF, 600 components
        # (thorough: numberOfContours 32767)
        ("max", _cfg("max", salt, targets=ctx.pick((65535, 65536, 1, 2), (65535, 65536, 1, 2, 32767)),
                     invs=["EncodeDecode", "LocaInv", "Emit"]), None, None, 4),
        ("big", _cfg("big", salt, targets=ctx.pick((131070, 131072),
                                                  (65534, 65536, 131068, 131070, 131072, 131074, 200000))),
         None, None, 3),
    ]
    if not quick:
        gens += [
            ("simple-2runs", _cfg("simple", salt, runs=2, full=False, with256=True), None, None, 10000),
            ("comp-3", _cfg("comp", salt, comps=3, full=False), None, None, 3000),
            ("set-3", _cfg("set", salt, glyphs=3), None, None, 3000),
        ]
    for name, cfg, sim, depth, expect in gens:
        jobs["gen:" + name] = pool.submit(_gen, ctx, "Glyf generation " + name, cfg, sim, depth, 1500, expect)

    binp = ctx.build("c11")
    d = ctx.subdir("c11")

    results = {}
    for k, fut in jobs.items():
        results[k] = fut.result()
        _account(ctx, results[k], k)
    ctx.cov["exhaustive"] = True
    ctx.cov["bounds"] = {
        "model": "glyph sets of 1..%d glyphs over a 9-glyph palette x padding 0..3 x loca version, then up to 4 API "
                 "calls (Decode / Encode pad 2|4, version 0|1 / FixComponents / Put)" % ctx.pick(2, 3),
        "call histories": "3 glyph sets with composite glyphs: Decode, then every sequence of %d calls out of "
                          "Fix(i, 2 maps) / Put / Components(i) / Encode / Encode of the reversed set / Decode; after "
                          "every call the glyph set, all Fix results and all Encode results handed out (bytes and a "
                          "fresh Decode) are re-observed; a writer with a shared buffer is refuted by TLC (HistInv)"
                          % ctx.pick(3, 4),
        "maxima": "65535 and 65536 points, instructionLength 0xFFFF, 600 components"
                  + ("" if quick else ", numberOfContours 32767"),
        "loca": "size vectors of length <= %d over {0,2,12,65522,65534,65536,131058,131070,131072,16777204,"
                "16777216}" % ctx.pick(4, 5),
        "library-built sets": "incl. exactly 65534 and 65535 glyphs and glyf tables of about 1.2 MB and 16.8 MB "
                              "(above 2^24: every byte of the long loca entry is non-zero somewhere)",
        "simple glyphs": "all 32 flag bytes x {1,1r,2,2r,3r,256r, 1 and 2r with all-zero deltas} runs, 1 run exhaustive with every finish choice"
                         + ("" if quick else ", 2 runs exhaustive (one finish per shape)")
                         + ", longer run lists by simulation",
        "composite glyphs": "every record independently: argument size x transform size x WE_HAVE_INSTRUCTIONS "
                            "(other bits by seed); chains of 1..2 exhaustive with every instruction/trailing-"
                            "bytes/padding choice" + ("" if quick else ", 3 exhaustive (one finish per shape)")
                            + ", up to 4 by simulation; numberOfContours over {-1,-2,-3,-128,-32768}",
    }

    # ---- collect the cases
    seen = set()
    cases = []
    per_gen = collections.Counter()
    for name, *_ in gens:
        for c in results["gen:" + name].cases:
            key = json.dumps([c["fmt"], c["loca"], c["glyf"], c.get("ops")], separators=(",", ":"))
            if key in seen:
                continue
            seen.add(key)
            c["id"] = len(cases) + 1
            c["src"] = "tlc"
            c["gen"] = name
            cases.append(c)
            per_gen[name] += 1
    ctx.log("TLC-generated encodings: %d distinct (%s)" % (len(cases), dict(per_gen)))
    for c in (cases[:1] + [x for x in cases if x["gen"] == "comp-2"][:1] + [x for x in cases if x["gen"] == "set-2"][5:6]
              + [x for x in cases if x["gen"] == "ops" and [o["op"] for o in x["ops"]][1:3] == ["fix", "fix"]][:1]):
        ctx.sample({"tlc_case": {k: c[k] for k in ("fmt", "loca", "glyf", "info", "gen", "ops") if k in c}})
    sizes = sorted(set(len(c["glyf"]) for c in cases if c["gen"] == "big"))
    ctx.cov["bounds"]["glyf table sizes of the 'big' cases"] = sizes
    libs = _lib_cases(ctx)

    # ---- record and validate, in parallel chunks balanced by size (TLC-printed and library-built
    #      cases share the chunks: every case names its source)
    def weight(c):
        if c["src"] == "tlc":
            if c.get("gen") == "max":
                return 3000000
            return 400 + len(c["glyf"]) * 6 * (1 + len(c.get("ops") or []))
        if c["lib"]["sparse"]:
            return 20000 + c["lib"]["n"] * 30
        n = c["lib"]["n"] // (c["lib"]["nilevery"] or 1)
        return 20000 + n * 1200 + c["lib"]["target"] * 12 + c["lib"]["huge"] * 100
    par = max(2, min(8, ctx.workers))
    nchunks = max(par, (len(cases) + 3499) // 3500)
    chunks = [[] for _ in range(nchunks)]
    load = [0] * nchunks
    for c in sorted(cases + libs, key=lambda c: -weight(c)):
        j = load.index(min(load))
        chunks[j].append(c)
        load[j] += weight(c)
    futs = []
    for j, ch in enumerate(chunks):
        if ch:
            ch.sort(key=lambda c: c["id"])
            futs.append((ch, pool.submit(_record_and_validate, ctx, binp, "tlc", ch, d, "chunk%d" % j, 2400)))

    found = []
    layouts = []
    nodemand = 0
    for ch, fut in futs:
        res, stats, fnd, lay = fut.result()
        layouts += lay
        _account(ctx, res, "GlyfTrace validation (%d cases)" % len(ch))
        ctx.cov["evaluations"] += stats[0]
        nodemand += stats[2]
        found += fnd
    pool.shutdown()
    bad_cases = set(f["case"] for f in found)
    ctx.cov["traces_validated_against_impl"] += len(cases) + len(libs) - len(bad_cases)
    ctx.cov["distinct_nontrivial"] = len(cases) + len(libs)
    ctx.cov["rule"] = ("distinct encoded glyph sets printed by TLC (deduplicated by bytes) plus glyph sets built "
                       "through the library API; evaluations = recorded API calls judged by TLC; %d events carried "
                       "no demand" % nodemand)
    ctx.sample({"library_built_sets": [c["lib"] for c in libs[:12]]})
    layouts.sort(key=lambda x: (x["glyf_bytes"], x["case"]))
    ctx.cov["bounds"]["Glyphs.Encode on inputs above 16 K bytes (glyf bytes, announced loca version, glyphs)"] = [
        [x["glyf_bytes"], x["loca_version"], x["glyphs"]] for x in layouts[:60]]

    # ---- every class of failed check: replay the smallest case in isolation
    by_id = {c["id"]: c for c in cases + libs}
    groups = collections.OrderedDict()
    for f in found:
        groups.setdefault(json.dumps(_sig(f), sort_keys=True), []).append(f)
    for key, fl in groups.items():
        def weight(f):
            c = by_id[f["case"]]
            return (len(c.get("glyf") or []) if c["src"] == "tlc" else 10 ** 6 + c["lib"]["n"] + c["lib"]["target"])
        fl.sort(key=weight)
        sg = json.loads(key)
        ctx.log("failed check %s: %d events in %d cases" % (key, len(fl), len(set(f["case"] for f in fl))))
        case = by_id[fl[0]["case"]]
        again = _replay_case(ctx, case, expect=sg)
        if sg not in again:
            raise vlib.Infra("failed check %s of case %s did not reproduce in isolation" % (key, case["id"]))
        ctx.notes.append("%s: %d recorded calls in %d cases fail this clause" % (
            key, len(fl), len(set(f["case"] for f in fl))))


def replay(ctx, obj):
    _locked_subdir(ctx)
    sigs = _replay_case(ctx, obj["case"])
    if not sigs:
        ctx.log("the case is accepted by GlyfTrace.tla")
