"""C19 -- the lookup description language is a faithful, total notation.

(a) totality / leaks
  1. TLC, exhaustive over all token lists, lexical error or not, a parse error after any item and at
     any rune, all interleavings: the leak-free design of DslConc.tla (lexer goroutine, parser with
     backlog / peek / fatal / drain, string-decoder goroutines) is deadlock free, every quiescent state
     is a good outcome of DslContract.tla, and it terminates under weak fairness.  Two negative
     configurations must FAIL in TLC (guard against vacuity): the decoder channel unbuffered as read in
     parser.go, and error items without a line as read in lexer.go.
  2. R: TLC enumerates the fault cases of the model (token shape, where the parse error strikes, rune
     index, lexical error); the harness maps each onto valid descriptions produced by ExplainGsub /
     ExplainGpos, mutated at the corresponding token, and runs builder.Parse under GOMAXPROCS 1,2,4,16
     with repetitions; plus every single-token mutation of valid descriptions and random texts.
     Every recorded observation is judged by TLC (DslTrace.tla, predicate GoodOutcome).
(b) faithfulness
  3. R: TLC enumerates the lookup-list shapes the language has syntax for (Dsl.tla); the harness
     instantiates each over fonts with/without glyph names and character mappings, runs Explain -> Parse
     and records canonical projections of both lookup lists; DslTrace.tla demands conformance of the
     instance to the shape and structural equality.
  4. Hand-specified descriptions (DslLang.tla): TLC renders the text and computes the meaning; the
     lookup list parsed by the real code must equal it.
A rejected observation is re-recorded in isolation and re-validated before it is reported.
"""
import collections
import concurrent.futures
import json
import os
import re
import threading

import vlib

LEVEL = "model_checking"
MANIFEST = {
    "text": "TLC exhaustively checks DslConc.tla (lexer goroutine, parser with backlog/peek/fatal/drain, string-decoder "
            "goroutines over Go channels; all token lists up to the bound, a parse error after any item and at any rune, "
            "all interleavings) for deadlock freedom, 'every quiescent state is a returned call with lookups or an "
            "error carrying a line and no goroutine left', and termination under weak fairness; the as-read variants "
            "(unbuffered decoder channel, channel one short per escaped backslash, error items without a line, a comment loop "
            "that ignores end of input, lexer started before the preconditions of Parse hold) must fail in TLC. TLC-enumerated fault cases are "
            "mapped onto mutated Explain-generated descriptions and run through the real builder.Parse under "
            "GOMAXPROCS 1,2,4,16 with repetitions, together with every single-token mutation and random texts; "
            "TLC-enumerated lookup-list shapes (GSUB 1-6, GPOS 1-4, flag subsets, 1-3 subtables, class/coverage forms, "
            "backtrack/lookahead 0-2, nested actions) are instantiated over fonts with/without names and cmap and "
            "round-tripped through Explain -> Parse (sizes up to 40 entries per key and 20 subtables, order and subtable "
            "formats preserved, GSUB1 deltas -1/-255/-256/wrapping); every lexical construct is placed at the end of the "
            "input and cut at every character; fonts without a usable cmap must still return cleanly; hand-specified descriptions are compared with the meaning TLC "
            "computes. Every recorded observation is accepted or rejected by TLC against DslTrace.tla.",
    "note": "Trusted: TLC, the goroutine probe of the harness (runtime.Stack filtered to builder frames, goroutine "
            "blocked in a channel operation after the call returned = leaked), the canonical projection of lookup lists "
            "(encoder choices such as Gsub1_1 vs Gsub1_2 or nil vs zero value records are not compared), the mapping "
            "of abstract fault positions to real tokens (same distance from the start / rune index kept). The grammar "
            "is abstracted to nondeterministic accept/push-back/fail in the model; round-trip equality is demanded only "
            "for shapes the parser has syntax for (listed in Dsl.tla).",
    "technique": "TLA+ model checking (TLC) of DslConc.tla incl. liveness and negative configurations + replay of "
                 "TLC-enumerated fault cases and lookup-list shapes into builder.Parse/Explain, recorded observations "
                 "validated by TLC against DslTrace.tla",
}

RE_REJ = re.compile(r'^<<"REJECTED_AT_LINE", (\d+)>>')


# ---------------------------------------------------------------------------------- helpers

def _cfg(name, drop=(), **repl):
    text = open(os.path.join(vlib.SPEC_DIR, name)).read()
    for k, v in repl.items():
        text, n = re.subn(r"(?m)^(\s*%s\s*=\s*).*$" % k, lambda m: m.group(1) + str(v), text)
        if n != 1:
            raise vlib.Infra("cannot set %s in %s" % (k, name))
    for line in drop:
        if line + "\n" not in text:
            raise vlib.Infra("no line %r in %s" % (line, name))
        text = text.replace(line + "\n", "")
    return text


def _rejected_lines(res):
    out = []
    with open(res.out_path, errors="replace") as f:
        for line in f:
            m = RE_REJ.match(line)
            if m:
                out.append(int(m.group(1)))
    return out


def _validate(ctx, paths, label, ncases):
    """Validate recorded traces in ONE TLC run (the files are concatenated).  Returns the list of
    (source file, event) that TLC rejected."""
    d = ctx.subdir("trace")
    big = os.path.join(d, "all.ndjson")
    bounds = []          # (first line, last line, path)
    n = 0
    with open(big, "wb") as out:
        for p in paths:
            k = 0
            with open(p, "rb") as f:
                for line in f:
                    out.write(line)
                    k += 1
            bounds.append((n + 1, n + k, p))
            n += k
    if n == 0:
        raise vlib.Infra("empty trace (%s)" % label)
    ok, line, res = ctx.validate_trace("DslTrace", big, label=label, traces=ncases, timeout=1800)
    ctx.cov["evaluations"] += n
    if ok:
        os.remove(big)
        return []
    rej = _rejected_lines(res)
    if not rej:
        raise vlib.Infra("trace validation failed without a rejected line (%s):\n%s" % (label, res.error_text[-2000:]))
    want = set(rej)
    out = []
    with open(big) as f:
        for k, text in enumerate(f, 1):
            if k in want:
                src = [p for (lo, hi, p) in bounds if lo <= k <= hi][0]
                out.append((src, json.loads(text)))
    os.remove(big)
    # the observations TLC accepted were validated as well
    ctx.cov["traces_validated_against_impl"] += max(0, ncases - len({(src, e.get("case")) for src, e in out}))
    return out


def _perr_cause(perr):
    m = re.search(r"unknown lookup flag: (\w+)", perr)
    if m:
        w = m.group(1)
        if w.endswith("class"):
            return "flag glued to the class keyword"
        return "flag name '%s' not accepted" % w
    if "invalid glyph id \"-" in perr:
        return "numeric range read as negative glyph id"
    if "expected glyph pair" in perr:
        return "GPOS2 class subtable after ||"
    if "unexpected \"mark\"" in perr:
        return "GPOS4 subtable after ||"
    if "expected single glyph, got [" in perr:
        return "one-component ligatures written as a range"
    if perr.startswith("cmap:"):
        return "no cmap"
    msg = re.sub(r'^\d+:("(\\.|[^"\\])*"(\.\.\.)?|[^:]*): ', "", perr)
    msg = re.sub(r'"(\\.|[^"\\])*"', "Q", msg)
    return "parse error: " + re.sub(r"\d+", "N", msg)[:60]


def _cause(e):
    """Classification of a rejected observation (for reporting only; the verdict is TLC's)."""
    if e["ev"] == "parse":
        cs = []
        if e["returned"] != e["runs"]:
            cs.append("hang")
        if e.get("pre", "ok") != "ok":
            if e["panics"]:
                cs.append("panic: " + re.sub(r"\d+", "N", e["pmsg"])[:60])
            if e["leaks"]:
                m = re.search(r"builder\.([\w\.\(\)\*]+)", e.get("stack", ""))
                cs.append("goroutine left after an early return: " + (m.group(1) if m else "?"))
            return cs or ["other"]
        if e["panics"]:
            cs.append("panic: " + re.sub(r"\d+", "N", e["pmsg"])[:60])
        if e["leaks"]:
            m = re.search(r"builder\.([\w\.\(\)\*]+)", e.get("stack", ""))
            cs.append("goroutine left: " + (m.group(1) if m else "?"))
        if e["noline"]:
            lexical = re.search(r"unexpected character|unterminated string", e["err"]) is not None
            if not re.match(r"^\d+:", e["err"]):
                cs.append("error without line prefix")
            else:
                cs.append("error with line 0 (%s)" % ("lexical error" if lexical else "end of input"))
        elif e["errs"] and (e["minline"] < 1 or e["maxline"] > e["nlines"]):
            cs.append("line number outside the text")
        return cs or ["other"]
    if e["ev"] == "rt":
        if e["xpanic"]:
            return ["Explain panics: " + re.sub(r"\d+", "N", e["xpanic"])[:60]]
        if e["ppanic"]:
            return ["Parse panics: " + re.sub(r"\d+", "N", e["ppanic"])[:60]]
        if not e["returned"]:
            return ["hang"]
        if e["perr"]:
            return [_perr_cause(e["perr"])]
        if e["leaks"]:
            return ["goroutine left"]
        if e["before"] == e["after"] and e.get("bfmt") == e.get("afmt") and e.get("bci") != e.get("aci"):
            return ["coverage table with gaps or out of order (indices not 0..n-1 in glyph order)"]
        if e["before"] == e["after"] and e.get("bfmt") != e.get("afmt"):
            return ["subtable format not preserved (%s%d)" % (e["shape"]["tab"], e["shape"]["typ"])]
        if e["before"] != e["after"]:
            return ["parsed lookup list differs (%s%d)" % (e["shape"]["tab"], e["shape"]["typ"])]
        return ["instance does not conform to its shape (harness)"]
    if e["ev"] == "reparse":
        if not e["returned"]:
            return ["hang"]
        if e["xpanic"] or e["ppanic"]:
            return ["describing a parsed lookup list panics: " + re.sub(r"\d+", "N", e["xpanic"] or e["ppanic"])[:60]]
        if e["leaks"]:
            return ["goroutine left"]
        if e["perr2"]:
            return ["description of a parsed lookup list is not parsed back: " + _perr_cause(e["perr2"])]
        if e["l1"] != e["l2"]:
            return ["parsed lookup list changes when described and parsed again"]
        if e["f1"] != e["f2"]:
            return ["subtable format changes when described and parsed again"]
        return ["coverage table with gaps or out of order (indices not 0..n-1 in glyph order)"]
    if e["ev"] == "num":
        if not e["returned"]:
            return ["hang"]
        if e["ppanic"] or e["leaks"]:
            return ["number case: panic or goroutine left"]
        if e["perr"]:
            return ["a number that fits its field is rejected (place %d)" % e["nk"]]
        return ["a number is not represented exactly: wrapped or accepted out of range (place %d)" % e["nk"]]
    if e["ev"] == "errline":
        if not e["returned"]:
            return ["hang"]
        if e["ppanic"] or e["leaks"]:
            return ["error-line case: panic or goroutine left"]
        if not e["perr"]:
            return ["erroneous text %d accepted" % e["et"]]
        return ["error reported for the wrong line or token"]
    if e["ev"] == "mean":
        if not e["returned"]:
            return ["hang"]
        if e["perr"] or e["ppanic"]:
            return ["description %d not parsed: %s" % (e["mid"], (e["perr"] or e["ppanic"])[:60])]
        if any(q != i for l in e.get("gci", []) for st in l for t in st for i, q in enumerate(t)):
            return ["coverage table with gaps or out of order (indices not 0..n-1 in glyph order)"]
        return ["description %d parsed to a different lookup list" % e["mid"]]
    return ["other"]


MAX_HANGS = 3


def _run_shards(ctx, binp, mode_args, outname, nshards, env, timeout):
    """Run one harness mode in nshards parallel processes; returns [(output path, summary)].

    Hang protocol (harness/cmd/c19): a process whose Parse/Explain call does not come back within the watchdog
    time records the observation, prints a summary with "hung" and exits (its goroutines may spin for ever); a
    fresh process continues after that case.  After MAX_HANGS hangs in one mode the sweep of that mode is
    abandoned: the recorded hangs go straight to reproduction in isolation."""
    state = {"hangs": 0}
    lock = threading.Lock()

    def one(i):
        res, skip, resume, part = [], [], "", 0
        while True:
            out = (outname % i) if part == 0 else (outname % i) + ".part%d" % part
            e = dict(env)
            e["C19_SHARD"] = "%d/%d" % (i, nshards)
            if skip:
                e["C19_SKIP"] = ",".join(skip)
            if resume:
                e["C19_RESUME"] = resume
            cur = out + ".cur"
            e["C19_CUR"] = cur
            try:
                rc, txt = ctx.run([binp] + mode_args + [out], env=e, timeout=timeout)
            except vlib.Infra as ex:
                # the process died: a panic in a goroutine the library started cannot be recovered by anybody.
                # The case is known from the marker file; it is reproduced once (same death at the same case) and
                # reported; the sweep goes on behind it.
                msg = str(ex)
                if "panic:" not in msg or "opentype/gtab/builder" not in msg or not os.path.exists(cur):
                    raise
                at = open(cur).read().strip()
                pp, cid = [int(x) for x in at.split(":")]
                e2 = dict(e)
                e2["C19_RESUME"] = "%d:%d" % (pp, cid - 1)
                e2["C19_CUR"] = cur + "2"
                again = None
                try:
                    ctx.run([binp] + mode_args + [out + ".again"], env=e2, timeout=timeout)
                except vlib.Infra as ex2:
                    if "panic:" in str(ex2) and os.path.exists(cur + "2") and open(cur + "2").read().strip() == at:
                        again = str(ex2)
                if again is None:
                    raise
                pl = [l.strip() for l in again.splitlines() if l.startswith("panic:")][:1]
                fr = [l.strip() for l in again.splitlines() if "opentype/gtab/builder." in l][:2]
                with lock:
                    state.setdefault("crashes", []).append((mode_args[0], pp, cid, (pl + fr)))
                if len(state["crashes"]) > 6:
                    return res
                resume = at
                part += 1
                continue
            info = json.loads(txt.strip().splitlines()[-1])
            if os.path.exists(out) and os.path.getsize(out) > 0:
                res.append((out, info))
            if not info.get("hung"):
                return res
            with lock:
                state["hangs"] += 1
                n = state["hangs"]
            if info.get("skip"):
                skip.append(info["skip"])
            resume = info["resume"]
            part += 1
            if n >= MAX_HANGS or part > 2 * MAX_HANGS:
                return res

    with concurrent.futures.ThreadPoolExecutor(max_workers=max(1, min(nshards, ctx.workers))) as ex:
        outs = [x for r in ex.map(one, range(nshards)) for x in r]
    for mode, pp, cid, what in state.get("crashes", []):
        ctx.violation("builder.Parse ends the whole process: a panic in a goroutine the parser started cannot be recovered "
                      "(mode %s, GOMAXPROCS %d, case %d of the sweep; reproduced by a second process that died at the same "
                      "case): %s" % (mode, pp, cid, " | ".join(what)),
                      sig={"part": "totality", "cause": "process-death"}, case={"mode": mode_args, "procs": pp, "case": cid})
    if state["hangs"]:
        ctx.notes.append("mode %s: %d call(s) did not return within the watchdog time%s" % (
            mode_args[0], state["hangs"],
            "; the sweep of this mode was abandoned after %d hangs" % MAX_HANGS if state["hangs"] >= MAX_HANGS else ""))
    if not outs:
        raise vlib.Infra("harness mode %s produced no output" % mode_args[0])
    return outs


def _stat(outs, key):
    """Sum / first value of a summary field over the processes that finished normally."""
    vals = [o[1][key] for o in outs if key in o[1]]
    return vals


def _find_case(case_file, cid):
    with open(case_file) as f:
        for line in f:
            if '"id":%d,' % cid in line:
                c = json.loads(line)
                if c["id"] == cid:
                    return c
    return None


# ---------------------------------------------------------------------------------- replay

def _replay_cases(ctx, cases, boost=1):
    """Re-record every case alone (one harness process each) and validate the recordings together in
    one TLC run.  Returns, per case, the first rejected event or None."""
    if not cases:
        return []
    binp = ctx.build("c19")
    d = ctx.subdir("replay")

    def one(i):
        c = dict(cases[i])
        if c.get("kind") == "parse":
            c["reps"] = max(int(c.get("reps") or 1), 5) * boost
        cp = os.path.join(d, "case%d.json" % i)
        json.dump(c, open(cp, "w"))
        tp = os.path.join(d, "trace%d.ndjson" % i)
        ctx.run([binp, "one", cp, tp], timeout=900)
        return tp

    with concurrent.futures.ThreadPoolExecutor(max_workers=max(1, min(len(cases), ctx.workers))) as ex:
        paths = list(ex.map(one, range(len(cases))))
    rej = _validate(ctx, paths, "DslTrace: replay of %d cases recorded in isolation" % len(cases), 0)
    res = [None] * len(cases)
    for src, e in rej:
        i = paths.index(src)
        if res[i] is None:
            res[i] = e
    return res


def _report(ctx, case, ev, cause, count):
    part = {"parse": "totality", "rt": "roundtrip", "mean": "meaning", "num": "numbers", "errline": "error line",
            "reparse": "roundtrip"}[ev["ev"]]
    if cause == "hang":
        text = case.get("text") or ev.get("text") or ""
        what = ("builder.Parse (or Explain) does not return: on the text %r (font %s) the call was still running after the "
                "watchdog time (5 s; such a text is parsed in microseconds), twice more when recorded alone in a fresh "
                "process [%d observations of this kind; case kind %s; origin: %s]"
                % (text[:300], case.get("font"), count, case.get("kind"), (case.get("origin") or "")[:200]))
        ctx.violation(what, sig={"part": "totality", "cause": "hang"}, case=case)
        return
    if ev["ev"] == "parse":
        what = ("builder.Parse is not total (%s): on the text %r (font %s, GOMAXPROCS=%d, %d runs) it returned %d "
                "times: %d lookups, %d errors (line numbers %d..%d, %d without a line, text has %d lines), %d panics, "
                "%d goroutines left behind. first error: %r %s [%d rejected observations of this kind; origin: %s]"
                % (cause, case["text"][:300], case["font"], ev["procs"], ev["runs"], ev["returned"], ev["oks"],
                   ev["errs"], ev["minline"], ev["maxline"], ev["noline"], ev["nlines"], ev["panics"], ev["leaks"],
                   ev["err"][:200], ("leaked: " + ev["stack"][:300]) if ev["stack"] else "", count,
                   (case.get("origin") or "")[:300]))
        sig = {"part": part, "cause": cause}
    elif ev["ev"] == "rt":
        s = ev["shape"]
        what = ("Explain -> Parse does not reproduce the lookup list (%s): shape %s%d %s flags %s over font %s; "
                "description %r; Parse error %r; explain panic %r; parse panic %r; described %s; parsed %s "
                "[%d rejected observations of this kind]"
                % (cause, s["tab"], s["typ"], "+".join(s["forms"]), s["flags"], s["font"], ev["text"][:400],
                   ev["perr"], ev["xpanic"], ev["ppanic"], json.dumps(ev["before"])[:400],
                   json.dumps(ev["after"])[:400], count))
        sig = {"part": part, "cause": cause, "table": s["tab"], "type": s["typ"], "forms": "+".join(s["forms"])}
    elif ev["ev"] == "reparse":
        what = ("a text the parser accepts denotes a lookup list the language can express, but describing that list and "
                "parsing the description does not give it back (%s): text %r (font %s) parsed to %s (coverage indices %s); "
                "described as %r; parsed again: error %r, %s (coverage indices %s) [%d rejected observations of this kind]"
                % (cause, ev["text"][:300], ev["font"], json.dumps(ev["l1"])[:400], json.dumps(ev["ci1"])[:120],
                   ev["text2"][:300], ev["perr2"], json.dumps(ev["l2"])[:400], json.dumps(ev["ci2"])[:120], count))
        sig = {"part": part, "cause": cause}
    elif ev["ev"] == "num":
        what = ("a number in a description must be represented exactly or be refused (%s): text %r; Parse error %r; "
                "parsed %s [%d rejected; place %d, literal no. %d of DslLang.tla]"
                % (cause, ev["text"], ev["perr"], json.dumps(ev["got"])[:400], count, ev["nk"], ev["nl"]))
        sig = {"part": part, "cause": cause}
    elif ev["ev"] == "errline":
        what = ("a parse error must carry the line of the token at which it is detected, an end-of-line token belonging to "
                "the line it ends (%s): text %r; error %r = line %d, token %r [%d rejected; case (%d,%d,%d) of DslLang.tla]"
                % (cause, ev["text"], ev["perr"], ev["line"], ev["item"], count, ev["et"], ev["ep"], ev["ex"]))
        sig = {"part": part, "cause": cause}
    else:
        what = ("the hand-specified description %d does not mean what the documented syntax says (%s): text %r; "
                "Parse error %r; parsed %s [%d rejected]"
                % (ev["mid"], cause, ev["text"][:400], ev["perr"], json.dumps(ev["got"])[:600], count))
        sig = {"part": part, "cause": cause, "description": ev["mid"]}
    ctx.violation(what, sig=sig, case=case)


def _triage(ctx, rejected):
    """rejected: [(trace file, event)].  One reproduced violation per cause."""
    if not rejected:
        return
    groups = collections.OrderedDict()
    for src, e in rejected:
        for c in _cause(e):
            groups.setdefault(c, []).append((src, e))
    ctx.log("%d rejected observations, causes: %s" % (len(rejected), {c: len(v) for c, v in groups.items()}))
    # candidates: per cause the two smallest observations, preferring those that show only this cause
    cands = []
    for cause, evs in groups.items():
        evs = sorted(evs, key=lambda x: (len(_cause(x[1])), len(json.dumps(x[1]))))
        for src, e in evs[:2]:
            case = _find_case(src + ".cases", e["case"])
            if case is None:
                raise vlib.Infra("rejected observation has no case (id %s in %s)" % (e.get("case"), src))
            cands.append((cause, case))
    again = _replay_cases(ctx, [c for _, c in cands])
    missing = []
    for cause in groups:
        hit = None
        for (c2, case), ev in zip(cands, again):
            if c2 == cause and ev is not None and cause in _cause(ev):
                hit = (case, ev)
                break
        if hit and cause == "hang":
            # a hang verdict needs two reproductions (wall-clock watchdog)
            second = _replay_cases(ctx, [hit[0]])[0]
            if second is None or "hang" not in _cause(second):
                ctx.notes.append("a watchdog timeout reproduced once but not twice: not reported")
                hit = None
        if hit:
            _report(ctx, hit[0], hit[1], cause, len(groups[cause]))
        else:
            missing.append(cause)
    if missing:
        # schedule-dependent observations get a second, longer chance before the run is declared inconclusive
        retry = [(c, case) for (c, case) in cands if c in missing and case.get("kind") == "parse"]
        again = _replay_cases(ctx, [c for _, c in retry], boost=10)
        for cause in list(missing):
            for (c2, case), ev in zip(retry, again):
                if c2 == cause and ev is not None and cause in _cause(ev):
                    _report(ctx, case, ev, cause, len(groups[cause]))
                    missing.remove(cause)
                    break
    if "hang" in missing:
        # a watchdog timeout that cannot be reproduced is an artefact of wall-clock time on a loaded machine
        missing.remove("hang")
        ctx.notes.append("%d observation(s) hit the wall-clock watchdog but did not reproduce in isolation "
                         "(two reproductions are required for a hang verdict): not reported" % len(groups["hang"]))
    if missing:
        if any("harness" in c for c in missing):
            raise vlib.Infra("harness instance does not conform to its shape: %s"
                             % json.dumps(groups[missing[0]][0][1])[:800])
        raise vlib.Infra("rejections did not reproduce in isolation: %s; first: %s" % (
            missing, json.dumps(groups[missing[0]][0][1])[:600]))


# ---------------------------------------------------------------------------------- the check

def _lock_subdir(ctx):
    """ctx.subdir is not thread safe; the independent TLC runs of this check run in parallel."""
    if getattr(ctx, "_c19_locked", False):
        return
    lock = threading.Lock()
    plain = ctx.subdir

    def locked(name=None):
        with lock:
            return plain(name)
    ctx.subdir = locked
    ctx._c19_locked = True


def _par_tlc(ctx, jobs):
    """Run independent TLC jobs (dicts of ctx.tlc keyword arguments, with 'module') in parallel; the
    bookkeeping of states/transitions is done afterwards in the calling thread."""
    _lock_subdir(ctx)
    w = max(2, ctx.workers // 2)

    def one(j):
        kw = dict(j)
        module = kw.pop("module")
        temporal = kw.pop("expect_temporal", False)
        try:
            return ctx.tlc(module, count=False, workers=w, **kw)
        except vlib.Infra as ex:
            # vlib does not recognise TLC's wording for a violated temporal property
            if temporal and "Temporal property Termination was violated" in str(ex):
                r = vlib.TLCResult()
                r.violated = "Termination"
                r.cmd = "tlc2.TLC -config %s %s.tla" % (kw.get("cfg"), module)
                return r
            raise

    with concurrent.futures.ThreadPoolExecutor(max_workers=3) as ex:
        results = list(ex.map(one, jobs))
    for j, res in zip(jobs, results):
        ctx.cov["states"] += res.distinct
        ctx.cov["transitions"] += res.generated
        ctx.cov["tlc_runs"].append({"label": j.get("label") or j["module"], "cmd": res.cmd, "generated": res.generated,
                                    "distinct": res.distinct, "diameter": res.diameter, "wall_s": round(res.wall, 2),
                                    "cases": len(res.cases), "violated": res.violated})
    return results


def _model(ctx):
    """Part (a), step 1 and the enumerations of part (b), as independent TLC runs in parallel: the design is
    model-checked, the as-read variants must fail, the shapes and descriptions are enumerated.
    Returns (fault cases, shapes, hand-specified descriptions)."""
    # quick: one exhaustive run that also enumerates the fault cases (Emit);
    # thorough: a larger run without Emit, and a second one that enumerates
    mt = ctx.pick(3, 5)
    cfg = _cfg("DslConc.cfg", MaxTok=mt) if ctx.quick() else _cfg("DslConc.cfg", drop=["INVARIANT Emit"], MaxTok=mt)
    jobs = [
        dict(module="DslConc", cfg="DslConcX.cfg", files={"DslConcX.cfg": cfg}, timeout=1800,
             label="DslConc design, exhaustive MaxTok=%d" % mt),
        # strings with escape sequences: the decoder sends one rune per element, whatever its length in bytes
        dict(module="DslConc", cfg="DslConcE.cfg", files={"DslConcE.cfg": _cfg("DslConcEsc.cfg", MaxRunes=ctx.pick(3, 4))},
             timeout=1800, label="DslConc design, strings with escape sequences (runes sent /= bytes)"),
        dict(module="Dsl", cfg=ctx.pick("Dsl.cfg", "DslFull.cfg"), timeout=1800,
             label="Dsl lookup-list shapes and hand-specified descriptions"),
        dict(module="DslConc", cfg="DslConcLive.cfg", timeout=900, label="DslConc design, liveness under weak fairness"),
        dict(module="DslConc", cfg="DslConcAsRead.cfg", timeout=600,
             label="DslConc as read (unbuffered decoder channel): must fail"),
        dict(module="DslConc", cfg="DslConcTight.cfg", timeout=600,
             label="DslConc, buffer one short per escaped backslash: must fail"),
        dict(module="DslConc", cfg="DslConcNoLine.cfg", timeout=600,
             label="DslConc as read (error items without line): must fail"),
        dict(module="DslConc", cfg="DslConcComment.cfg", timeout=600, expect_temporal=True,
             label="DslConc, comment loop that stops at newline only: must fail (never terminates at end of input)"),
        dict(module="DslConc", cfg="DslConcSpawn.cfg", timeout=600,
             label="DslConc, lexer started before the preconditions are checked: must fail"),
        dict(module="DslConc", cfg="DslConcEolNext.cfg", timeout=600,
             label="DslConc, line counter advanced before the end-of-line item is sent: must fail"),
    ]
    if not ctx.quick():
        jobs.append(dict(module="DslConc", cfg="DslConcG.cfg", files={"DslConcG.cfg": _cfg("DslConc.cfg", MaxTok=4, MaxPeek=1)},
                         timeout=1800, label="DslConc design, MaxTok=4, fault-case enumeration"))
    rr = _par_tlc(ctx, jobs)
    res, esc, sh, live, neg, neg3, neg2, neg4, neg5, neg6 = rr[:10]
    gen = res if ctx.quick() else rr[10]
    for r, what in ((res, "design"), (esc, "escape configuration"), (gen, "enumeration run")):
        if not r.ok:
            raise vlib.Infra("DslConc.tla (%s) violates %s on the model -- the spec is wrong, not the code:\n%s"
                             % (what, r.violated, r.error_text[:1500]))
    if not live.ok:
        raise vlib.Infra("DslConc.tla (design) violates liveness: %s" % live.violated)
    if neg.violated not in ("SinkGood", "deadlock"):
        raise vlib.Infra("negative configuration DslConcAsRead did not fail as expected (%s): the model is vacuous"
                         % neg.violated)
    last = "\n".join(neg.counterexample[-20:])
    if 'ppc = "exit"' not in last or 'pc |-> "send"' not in last:
        raise vlib.Infra("negative configuration failed in an unexpected state:\n" + last)
    if neg3.violated not in ("SinkGood", "deadlock"):
        raise vlib.Infra("negative configuration DslConcTight did not fail as expected (%s)" % neg3.violated)
    if neg2.violated != "ResultOK":
        raise vlib.Infra("negative configuration DslConcNoLine did not fail as expected (%s)" % neg2.violated)
    if neg4.violated != "Termination":
        raise vlib.Infra("negative configuration DslConcComment did not fail as expected (%s)" % neg4.violated)
    if neg5.violated not in ("SinkGood", "deadlock"):
        raise vlib.Infra("negative configuration DslConcSpawn did not fail as expected (%s)" % neg5.violated)
    if neg6.violated != "LineLaw":
        raise vlib.Infra("negative configuration DslConcEolNext did not fail as expected (%s)" % neg6.violated)
    if sh.violated:
        raise vlib.Infra("shape enumeration violated " + sh.violated)
    ctx.notes.append("negative configurations fail in TLC as required: unbuffered decoder channel -> %s (parser exited, "
                     "decoder blocked in send); buffer = bytes - 2 - backslashes -> %s; error items without line -> ResultOK; comment loop "
                     "that stops at newline only -> Termination (lexer spins at end of input, parser waits); lexer started "
                     "before the preconditions -> %s (early return leaves the lexer blocked); line counter advanced before the end-of-line "
                     "item -> LineLaw"
                     % (neg.violated, neg3.violated, neg5.violated))
    ctx.notes.append("subtable alternatives: every pair of formats is a distinct kind of the canonical projection and must be "
                     "preserved (GPOS1 1/2, GPOS2 1/2, context 1/2/3, chained context 1/2/3); GSUB1 format 1 must come back as "
                     "format 1 and format 2 without constant delta as format 2; the notation cannot distinguish a GSUB1 format 2 "
                     "subtable with constant delta from format 1, nil from all-zero value records, nil from empty slices; "
                     "coverage/class-definition formats do not exist in the data model (chosen when encoding)")
    ctx.cov["exhaustive"] = True
    ctx.cov["bounds"] = {"MaxTok": mt, "MaxStr": 2, "MaxRunes": 3, "MaxPeek": 2, "escape_config": "MaxTok 2, runes p/e/b",
                         "parse_error": "after any item / at any rune", "lexical_error": "at the end of any token list",
                         "interleavings": "all"}
    seen, out = set(), []
    for c in gen.cases + [x for x in esc.cases if any(t["k"] == "s" and set(t["r"]) != {"p"} for t in x["toks"])]:
        k = json.dumps(c, sort_keys=True)
        if k not in seen:
            seen.add(k)
            out.append(c)
    shapes = [c for c in sh.cases if "forms" in c]
    means = sorted([c for c in sh.cases if "mid" in c], key=lambda c: c["mid"])
    means += sorted([c for c in sh.cases if "nk" in c], key=lambda c: (c["nk"], c["nl"]))
    means += sorted([c for c in sh.cases if "et" in c], key=lambda c: (c["et"], c["ep"], c["ex"]))
    return out, shapes, means


def run(ctx):
    ctx.assumptions += [
        "the grammar is abstracted in DslConc.tla: after each item the parser may accept, push back or fail; error/zero/EOF "
        "items are never accepted as content; push-backs between two receives are bounded",
        "a goroutine with builder frames that is blocked in a channel operation after Parse returned is leaked "
        "(nobody else holds its channel)",
        "round-trip equality is demanded on a canonical projection (encoder choices such as Gsub1_1 vs Gsub1_2, nil vs zero "
        "value records, nil vs empty slices are not compared) and only for shapes the parser has syntax for (Dsl.tla)",
        "abstract fault positions are mapped to real tokens by keeping the number of items received before the fault, the "
        "number of items after it, and the rune index",
    ]
    fcases, shapes, means = _model(ctx)
    if len(fcases) < 500:
        raise vlib.Infra("only %d fault cases" % len(fcases))
    if len(shapes) < 1000 or len(means) < 500:
        raise vlib.Infra("only %d shapes, %d descriptions" % (len(shapes), len(means)))

    binp = ctx.build("c19")
    d = ctx.subdir("c19")
    fpath = os.path.join(d, "faultcases.ndjson")
    vlib.write_ndjson(fpath, fcases)
    spath = os.path.join(d, "shapes.ndjson")
    vlib.write_ndjson(spath, shapes)
    mpath = os.path.join(d, "meaning.ndjson")
    vlib.write_ndjson(mpath, means)
    # catalogue of descriptions for part (a): shapes over fonts with strings / numbers / names
    per = ctx.pick(1, 3)
    seen = collections.Counter()
    cat = []
    for s in shapes:
        if s["font"] not in ("nc", "c", "np", "e") or s["forms"] == ["rund"] or s["lst"] != "single" or len(s["forms"]) > 3 or s["a"] > 4 or s["b"] > 7:
            continue
        k = (s["font"], s["tab"], s["typ"], tuple(s["forms"]))
        if seen[k] >= per:
            continue
        seen[k] += 1
        cat.append(s)
    cpath = os.path.join(d, "catalogue.ndjson")
    vlib.write_ndjson(cpath, cat)
    ctx.sample({"fault_case_from_TLC": fcases[len(fcases) // 2]})
    ctx.sample({"shape_from_TLC": shapes[len(shapes) // 3]})
    ctx.sample({"description_rendered_by_TLC": means[8]})
    ctx.sample({"error_line_case_rendered_by_TLC": means[-40]})

    # ---- run the real code: (a) fault cases, mutation sweep, random texts; (b) round trips, meanings
    nsh = ctx.pick(8, 16)
    envf = {"C19_REPS": str(ctx.pick(3, 20)), "C19_REAL": str(ctx.pick(1, 3))}
    fouts = _run_shards(ctx, binp, ["faults", fpath, cpath], os.path.join(d, "faults%d.ndjson"), nsh, envf, 2400)
    nf = sum(_stat(fouts, "cases"))
    ctx.log("faults: %d texts from %d TLC fault cases, catalogue %s valid descriptions (%s not valid on this tree)" % (
        nf, len(fcases), (_stat(fouts, "catalogue") or ["?"])[0], (_stat(fouts, "skipped") or ["?"])[0]))
    # diagnostic: how often the real parser fails where the model decided to fail
    agree = collections.Counter()
    for path, _ in fouts:
        model = {}
        for c in vlib.read_ndjson(path + ".cases"):
            model[c["id"]] = '"result":"error"' in c["origin"]
        for e in vlib.read_ndjson(path):
            if e["procs"] == 1:
                agree[(model[e["case"]], e["errs"] > 0)] += 1
    ctx.notes.append("realisation of TLC fault cases: model error/real error %d, model error/real lookups %d (the mutation left a "
                     "valid description), model ok/real ok %d, model ok/real error %d" % (
                         agree[(True, True)], agree[(True, False)], agree[(False, False)], agree[(False, True)]))
    envs = {"C19_REPS": str(ctx.pick(2, 5)), "C19_RANDOM": str(ctx.pick(600, 6000)), "C19_ESCSTR": str(ctx.pick(1, 2))}
    scat = os.path.join(d, "sweepcat.ndjson")
    step = ctx.pick(3, 4)      # quick: about 45 descriptions, thorough: about 270
    vlib.write_ndjson(scat, cat[(ctx.seed % step)::step])
    souts = _run_shards(ctx, binp, ["sweep", scat], os.path.join(d, "sweep%d.ndjson"), nsh, envs, 2400)
    ns = sum(_stat(souts, "cases"))
    ctx.log("sweep: %d texts (%s single-token mutations, %s random)" % (
        ns, (_stat(souts, "mutations") or ["?"])[0], (_stat(souts, "random") or ["?"])[0]))
    mouts = _run_shards(ctx, binp, ["mean", mpath], os.path.join(d, "mean%d.ndjson"), 1, {}, 600)
    mtraces = [o[0] for o in mouts]
    routs = _run_shards(ctx, binp, ["rt", spath], os.path.join(d, "rt%d.ndjson"), ctx.pick(2, 8), {}, 2400)
    ctx.log("round trips: %d shapes, %d hand-specified descriptions" % (len(shapes), len(means)))
    shown = 0
    for e in vlib.read_ndjson(souts[0][0]):
        if e["ev"] == "parse" and e["errs"] > 0 and e["procs"] > 1 and shown < 2:
            ctx.sample({"recorded_observation": e})
            shown += 1
    with open(routs[0][0]) as f:
        e0 = json.loads(f.readline())
    ctx.sample({"round_trip_observation": {k: v for k, v in e0.items() if k != "after"}})

    # ---- TLC judges every recorded observation (DslTrace.tla)
    parse_paths = [o[0] for o in fouts] + [o[0] for o in souts]
    rp = [o[0] for o in routs]
    if ctx.quick():
        rejected = _validate(ctx, parse_paths + mtraces + rp, "DslTrace: all recorded observations",
                             nf + ns + len(shapes) + len(means))
    else:
        jobs = [(parse_paths, "DslTrace: parse observations", nf + ns)]
        per = max(1, len(rp) // 4)
        chunks = [rp[i:i + per] for i in range(0, len(rp), per)]
        chunks[0] = mtraces + chunks[0]
        for ch in chunks:
            jobs.append((ch, "DslTrace: round-trip observations", (len(shapes) * len(ch)) // max(1, len(rp))))
        rejected = []
        _lock_subdir(ctx)
        with concurrent.futures.ThreadPoolExecutor(max_workers=min(len(jobs), max(1, ctx.workers // 2))) as ex:
            for r in ex.map(lambda j: _validate(ctx, j[0], j[1], j[2]), jobs):
                rejected += r
    _triage(ctx, rejected)

    ctx.cov["distinct_nontrivial"] = nf + ns + len(shapes) + len(means)
    ctx.cov["rule"] = ("distinct texts run through builder.Parse (realisations of TLC fault cases, single-token mutations, "
                       "random texts) + distinct (shape, font) round trips + hand-specified descriptions; evaluations = "
                       "recorded observations validated by TLC (a parse observation aggregates the repetitions under one "
                       "GOMAXPROCS value)")
    ctx.cov["bounds"].update({"fault_cases": len(fcases), "shapes": len(shapes), "gomaxprocs": [1, 2, 4, 16],
                              "repetitions": ctx.pick(3, 20)})


def replay(ctx, obj):
    case = obj["case"]
    ev = _replay_cases(ctx, [case])[0]
    if ev is None:
        ctx.log("the case is accepted now")
        return
    cause = (obj.get("sig") or {}).get("cause")
    causes = _cause(ev)
    _report(ctx, case, ev, cause if cause in causes else causes[0], 1)
