"""C04 -- compiling glyphs to Type 2 charstrings preserves outline, hints and width.

1. TLC, exhaustive: Type2Glyph.tla (GlyphGen) produces only well-formed glyph descriptions (the
   domain of the property), and the Type 2 machine that judges the encoder (Type2Core.tla, checked
   through Type2.tla/Type2.cfg restricted to the path and hint operators) satisfies its stack,
   stage, width and replay invariants.
2. R: TLC enumerates the stack-limit sweep (Type2GlyphSweep.cfg: for every operator form the encoder
   can emit, isolated runs whose single-operator encoding needs limit-2..limit+2 operands, with
   first/middle/last segments of another family, with and without a width operand, 0..49 stems;
   single deltas of exactly 32767/32768/32769/63999/64000 as move, line, curve start/end) and the
   width sweep (Type2GlyphWidths.cfg: fonts of 1..3 glyphs, all assignments of 0 / negative /
   negative fractional / fractional widths), the width-selection sweep (Type2GlyphWidthSel.cfg: TLC
   classifies every width sequence by the special value the encoder's selection rule lands on) and
   the operand-value sweep (a full operator of every form with a two-slot / five-byte number at
   every operand position 1..48),
   and TLC -simulate generates fonts (1..8 glyph descriptions each) from boundary deltas that
   make every operator form reachable (h/v zero patterns, flex-compatible pairs, runs across the
   48-operand limit, 0..96 stems, masks first / in the middle, equal / unequal / fractional
   widths).  The harness builds a cff.Font, calls (*cff.Font).Write, and extracts charstrings
   and Private DICT widths from the written bytes with its own walker.
3. V: one trace event per emitted operator; Type2Trace.tla (the machine of Type2Core.tla as a
   trace specification) must find every operator enabled (legal operand count, stack <= 48,
   endchar last) and end in a state equal to the source glyph: exactly for integer glyphs,
   within half a 16.16 unit per absolute coordinate for glyphs given on a 2^-18 grid.
A glyph TLC rejects is re-recorded alone (its font) and re-validated before it counts.
"""
import json
import os
import re

import vlib

LEVEL = "model_checking"
MANIFEST = {
    "text": "TLC generates glyph descriptions (Type2Glyph.tla: moves, lines, curves in every zero/non-zero pattern, "
            "flex pairs, runs across the 48-operand stack limit, 0..96 stems, hint/counter masks, integer and "
            "fractional widths across the glyphs of a font); the real encoder compiles them ((*cff.Font).Write) and "
            "an independent walker extracts the emitted CharStrings and Private DICT widths; every emitted operator "
            "is validated by TLC against the Type 2 machine Type2Trace.tla/Type2Core.tla (enabled: legal operand "
            "count, stack <= 48, ends with endchar) and the final machine state must equal the source glyph (exact on "
            "integers, within half a 16.16 unit per absolute coordinate on a 2^-18 grid, so errors may not accumulate).",
    "note": "Trusted: TLC, the harness's CFF walker/tokeniser. Magnitudes above 2000 are checked on integers only "
            "(32-bit TLC arithmetic). Stem deltas are relative within one stem operator (TN5177 reading shared "
            "with FreeType).",
    "technique": "TLA+ model checking (TLC) of Type2Glyph.tla/Type2.tla + trace validation of the emitted charstring "
                 "operators against Type2Trace.tla",
}

_BAD = re.compile(r'<<\s*"BAD",(.*?)>>\s*(?=\n<<|\nError|\n\d+ states|\nModel|\nProgress|\Z)', re.S)
_HEAD = re.compile(r'\s*(\d+),\s*(\d+),\s*(-?\d+),\s*<<\s*"([^"]*)"')


def _bad_items(res):
    """BAD reports of a validation run: list of (line, case, gid, kind, text)."""
    txt = open(res.out_path, errors="replace").read()
    out = []
    seen = set()
    for it in _BAD.findall(txt):
        flat = re.sub(r"\s+", " ", it)
        m = _HEAD.match(flat)
        if not m:
            raise vlib.Infra("unparsable BAD line from TLC: %r" % flat[:200])
        key = (int(m.group(1)), m.group(4))
        if key in seen:
            continue
        seen.add(key)
        out.append((key[0], int(m.group(2)), int(m.group(3)), m.group(4), flat[:700]))
    return out


def _points(g):
    pts = [(0, 0)]
    for c in g["cmds"]:
        if c[0] in ("m", "l"):
            pts.append((c[1], c[2]))
        elif c[0] == "c":
            pts += [(c[1], c[2]), (c[3], c[4]), (c[5], c[6])]
    return pts


def _tags(font, gid):
    gu = font["gunit"]
    tags = []
    if 0 <= gid < len(font["glyphs"]):
        g = font["glyphs"][gid]
        pts = _points(g)
        if any(abs(b[0] - a[0]) > 32767 * gu or abs(b[1] - a[1]) > 32767 * gu for a, b in zip(pts, pts[1:])):
            tags.append("delta>32767")
        if gu > 1 and any(v % 4 for v in g["hs"] + g["vs"]):
            tags.append("stems-finer-than-16.16")
    if any(g["w"] % gu for g in font["glyphs"]):
        tags.append("fractional-width")
    return tags


def _klass(kind, tags):
    """Failure class of a BAD report: what differs, and the input feature that explains it."""
    kind = kind.split(" (")[0].split(":")[0]
    if kind in ("hstem", "vstem"):
        return ("stems", "stems-finer-than-16.16" if "stems-finer-than-16.16" in tags else "")
    if kind == "width":
        return ("width", "fractional-width" if "fractional-width" in tags else "")
    if "delta>32767" in tags:
        return ("path", "delta>32767")
    return (kind, "")


class Runner:
    def __init__(self, ctx):
        self.ctx = ctx
        self.bin = ctx.build("c04")
        self.dir = ctx.subdir("c04")
        self.next_id = 0
        self.k = 0
        self.distinct = set()
        self.glyphs = 0
        self.reported = set()
        self.ops = {}

    def record(self, fonts, path):
        cp = path + ".cases"
        vlib.write_ndjson(cp, fonts)
        self.ctx.run([self.bin, "record", cp, path], timeout=900)

    def validate(self, fonts, tcfg, label):
        """Record the fonts, validate the trace; returns the BAD items."""
        ctx = self.ctx
        for f in fonts:
            f["id"] = self.next_id
            self.next_id += 1
        bad = []
        chunk = 250 if len(fonts) <= 500 or not self.ctx.quick() else 1300
        for s in range(0, len(fonts), chunk):
            part = fonts[s:s + chunk]
            self.k += 1
            tp = os.path.join(self.dir, "trace%d.ndjson" % self.k)
            self.record(part, tp)
            nev = 0
            ng = 0
            with open(tp) as f:
                for line in f:
                    nev += 1
                    if '"ev":"reset"' in line:
                        ng += 1
                    elif '"ev":"op"' in line:
                        o = json.loads(line)["op"]
                        self.ops[o] = self.ops.get(o, 0) + 1
            ok, line, res = ctx.validate_trace("Type2Trace", tp, cfg=tcfg, timeout=1200,
                                               label="%s %d" % (label, self.k), traces=0)
            items = _bad_items(res)
            if res.violated and res.violated != "postcondition":
                raise vlib.Infra("trace validation violated %s:\n%s" % (res.violated, res.error_text[:1500]))
            if not ok and not items:
                raise vlib.Infra("trace validation stopped at line %s without a BAD report:\n%s"
                                 % (line, res.error_text[-1500:]))
            if items and line is not None and line <= nev:
                raise vlib.Infra("trace validation did not consume the whole trace (line %s of %d)" % (line, nev))
            ctx.cov["evaluations"] += nev
            ctx.cov["traces_validated_against_impl"] += ng - len(set((c, g) for _, c, g, _, _ in items))
            self.glyphs += ng
            bad += items
            os.remove(tp)
        for f in fonts:
            for g in f["glyphs"]:
                if g["cmds"] or g["hs"] or g["vs"]:
                    self.distinct.add(json.dumps(g, sort_keys=True))
        ctx.log("%s: %d fonts, %d glyphs so far, %d glyphs rejected" % (label, len(fonts), self.glyphs, len(bad)))
        return bad

    def confirm(self, font, gid, tcfg):
        """Re-record one font alone and validate it alone; returns the BAD items of glyph gid."""
        ctx = self.ctx
        d = ctx.subdir("one")
        tp = os.path.join(d, "trace.ndjson")
        self.record([font], tp)
        ok, line, res = ctx.validate_trace("Type2Trace", tp, cfg=tcfg, label="replay of one font", traces=0)
        items = _bad_items(res)
        return [it for it in items if it[2] == gid or gid < 0]

    def report(self, fonts, bad, tcfg, stratum):
        ctx = self.ctx
        byid = {f["id"]: f for f in fonts}
        groups = {}
        for line, cid, gid, kind, text in bad:
            key = _klass(kind, _tags(byid[cid], gid))
            groups.setdefault(key, []).append((cid, gid, text))
        for key, lst in sorted(groups.items()):
            if key in self.reported:
                continue
            self.reported.add(key)
            lst.sort(key=lambda t: (len(json.dumps(byid[t[0]])), t[0], t[1]))
            cid, gid, text = lst[0]
            font = byid[cid]
            again = [it for it in self.confirm(font, gid, tcfg) if _klass(it[3], _tags(font, gid)) == key]
            if not again:
                ctx.notes.append("a rejected glyph did not reproduce in isolation (%s)" % (key,))
                raise vlib.Infra("rejection of font %d glyph %d (%s) did not reproduce in isolation" % (cid, gid, key))
            g = font["glyphs"][gid] if 0 <= gid < len(font["glyphs"]) else {}
            what = ("(*cff.Font).Write does not preserve a glyph: Type2Trace.tla rejects the emitted charstring of "
                    "glyph %d of a %d-glyph font: %s. %d glyphs rejected in class %s (stratum %s). Source glyph "
                    "(units of 1/%d): %s; widths of the font: %s"
                    % (gid, len(font["glyphs"]), again[0][4][:500], len(lst), key, stratum, font["gunit"],
                       json.dumps(g)[:400], [x["w"] for x in font["glyphs"]]))
            ctx.violation(what, sig={"why": key[0], "tags": key[1], "stratum": stratum, "gunit": font["gunit"]},
                          case={"font": font, "gid": gid, "tcfg": tcfg})


def _fonts(ctx, cfgname, n, label, subs=()):
    """n fonts by simulation; n = None: enumerate the configuration (every terminal state is a font)."""
    text = open(os.path.join(vlib.SPEC_DIR, cfgname)).read()
    for a, b in subs:
        assert a in text, (cfgname, a)
        text = text.replace(a, b)
    if n is None:
        res = ctx.tlc("Type2GlyphMC", cfg="G.cfg", files={"G.cfg": text}, timeout=1500, label=label)
    else:
        res = ctx.tlc("Type2GlyphMC", cfg="G.cfg", files={"G.cfg": text}, workers=1, simulate=n, depth=400,
                      timeout=1500, label=label)
    if res.violated:
        raise vlib.Infra("%s: GlyphGen violates %s -- the spec is wrong, not the code:\n%s"
                         % (label, res.violated, res.error_text[:1500]))
    if len(res.cases) < (100 if n is None else n // 2):
        raise vlib.Infra("%s produced only %d fonts" % (label, len(res.cases)))
    if n is None:      # an enumeration reaches the same font through several initial states
        seen, uniq = set(), []
        for c in res.cases:
            k = json.dumps(c, sort_keys=True)
            if k not in seen:
                seen.add(k)
                uniq.append(c)
        return uniq
    return res.cases


def run(ctx):
    ctx.assumptions += [
        "integer glyphs: coordinates in [-32000, 32000], compared exactly; fractional glyphs: a 2^-18 grid with "
        "|v| <= 2000 (TLC integers are 32-bit), every absolute coordinate within half a 16.16 unit",
        "stem deltas are relative to the previous edge within one stem operator and start from 0 in each operator",
        "a width default (defaultWidthX / nominalWidthX) is only required to be a sane number if some glyph uses it",
        "glyph descriptions start every subpath with a move; masks only in glyphs with stems (GlyphGen invariants)",
    ]
    # 1. the design
    res = ctx.tlc("Type2GlyphMC", cfg="G.cfg",
                  files={"G.cfg": open(os.path.join(vlib.SPEC_DIR, "Type2Glyph.cfg")).read().replace(
                      "MaxSteps = 2", "MaxSteps = %d" % ctx.pick(2, 3))},
                  timeout=900, label="Type2Glyph exhaustive (well-formed glyph descriptions)")
    if not res.ok:
        raise vlib.Infra("Type2Glyph.tla violates %s on the model:\n%s" % (res.violated, res.error_text[:1500]))
    t2 = open(os.path.join(vlib.SPEC_DIR, "Type2.cfg")).read().replace("Feats <- ExFeats", "Feats <- PathFeats")
    res = ctx.tlc("Type2MC", cfg="X.cfg", files={"X.cfg": t2}, timeout=900,
                  label="Type2 machine exhaustive (path and hint operators)")
    if not res.ok:
        raise vlib.Infra("Type2.tla violates %s on the model:\n%s" % (res.violated, res.error_text[:1500]))
    ctx.cov["exhaustive"] = True
    ctx.cov["bounds"] = {"machine": "every path/hint operator, <= 2 clearing operators, operands from {-2,5}",
                         "glyphgen": "1 glyph, %d steps, deltas {0,3}" % ctx.pick(2, 3),
                         "beyond": "simulation: fonts of 1..8 glyphs, 12 steps, runs of up to 49 segments, 96 stems"}

    r = Runner(ctx)
    strata = [
        # enumerated, not sampled: operator form x run length around the 48-operand limit x variant x
        # stem plan x width operand present/absent (Type2GlyphSweep.cfg)
        ("stack-limit and number-range sweep (enumerated)", "Type2GlyphSweep.cfg", (), "Type2Trace.cfg", None),
        # enumerated: fonts of 1..3 outline-less glyphs, every assignment of boundary widths
        # (0, negative, negative fractional, fractional) -- Type2GlyphWidths.cfg
        ("width sweep (enumerated)", "Type2GlyphWidths.cfg", (), "Type2TraceFine.cfg", None),
        # enumerated: every width sequence of 1..4 glyphs over {-1000,-107,0,107,500}; TLC labels the special
        # values the encoder's selection rule lands on (nominal 0, clamps, default 0 / = nominal, ...)
        ("width-selection sweep (enumerated)", "Type2GlyphWidthSel.cfg", (), "Type2Trace.cfg", None),
        # enumerated: a full operator of every form with one five-byte 16.16 operand at position p
        ("operand-value sweep, fractional (enumerated)", "Type2GlyphSweepFine.cfg",
         [("ValuePos <- AllPos", "ValuePos <- SomePos")] if ctx.quick() else (), "Type2TraceFine.cfg", None),
        # enumerated: one delta of magnitude 32767.x .. 64000 with every quarter as fractional part
        ("number-range sweep on quarter units (enumerated)", "Type2GlyphSweepQuarter.cfg", (), "Type2TraceQuarter.cfg", None),
        ("integer glyphs", "Type2GlyphGen.cfg", (), "Type2Trace.cfg", ctx.pick(220, 2500)),
        ("integer glyphs with corner-to-corner jumps", "Type2GlyphGen.cfg", [("FarJumps = FALSE", "FarJumps = TRUE")],
         "Type2Trace.cfg", ctx.pick(40, 400)),
        ("fractional glyphs (2^-18 grid)", "Type2GlyphGenFine.cfg", (), "Type2TraceFine.cfg", ctx.pick(220, 2500)),
    ]
    for label, gcfg, subs, tcfg, n in strata:
        fonts = _fonts(ctx, gcfg, n, "GlyphGen: " + label, subs=subs)
        ctx.sample({"font_" + label.split()[0]: fonts[len(fonts) // 2]})
        if "selection" in label:
            seen = set(k for f in fonts for k in f.get("cls", []))
            want = {"one glyph", "negative", "all equal", "default 0", "nominal 0", "default non-zero with nominal 0",
                    "default equals nominal", "nominal clamped to min+107", "nominal clamped to max-107",
                    "nominal unclamped"}
            if want - seen:
                raise vlib.Infra("width-selection classes TLC did not reach: %s" % sorted(want - seen))
            ctx.cov["width_selection_classes"] = sorted(seen)
        bad = r.validate(fonts, tcfg, "Type2Trace: " + label)
        r.report(fonts, bad, tcfg, label)

    ctx.cov["distinct_nontrivial"] = len(r.distinct)
    ctx.cov["rule"] = ("distinct TLC-generated glyph descriptions with at least one path command or stem; "
                       "evaluations = trace events (one per emitted operator) judged by TLC; "
                       "traces_validated_against_impl = glyphs whose emitted charstring TLC accepted")
    ctx.cov["emitted_operator_occurrences"] = dict(sorted(r.ops.items()))
    missing = [o for o in ("rlineto", "hlineto", "vlineto", "rrcurveto", "hhcurveto", "vvcurveto", "hvcurveto",
                           "vhcurveto", "rcurveline", "rlinecurve", "hflex", "hflex1", "hstem", "vstem", "hstemhm",
                           "vstemhm", "hintmask", "cntrmask", "rmoveto", "hmoveto", "vmoveto")
               if r.ops.get(o, 0) == 0]
    if missing:
        raise vlib.Infra("operator forms the encoder never emitted (generator too weak): %s" % missing)


def replay(ctx, obj):
    r = Runner(ctx)
    c = obj["case"]
    font = c["font"]
    font["id"] = 0
    bad = r.confirm(font, c["gid"], c["tcfg"])
    if bad:
        # (not ctx.violation: that would overwrite a replay file of the same seed)
        ctx.violations.append({"what": "replayed font is still rejected: %s" % bad[0][4][:600],
                               "sig": obj.get("sig"), "replay": ctx.replay_path})
    else:
        ctx.log("replayed font is accepted")
