"""Catalogues of lookup lists for Shaper.tla (C06/C07/C15) and their rendering as TLA+ constants.

A *case* is a JSON-serialisable dict (this is also what the Go harness reads):

  {"id": n, "family": str, "order": [1-based lookup indices], "gdef": {...}, "ll": [lookup...],
   "inputs": None (= all strings over the alphabet up to MaxLen) or [[gid...], ...]}

  lookup = {"flags": ["base"|"lig"|"mark"...], "useSet": bool, "markSet": 1-based int, "attach": int,
            "rtl": bool, "gpos": bool, "subs": [subtable...]}
  subtable kinds (field "k"), glyph sets are sorted lists, maps are lists of [key, value]:
    single {fmt, m:[[g, g']]}            multi {m:[[g, [g...]]]}         alt {m:[[g, [g...]]]}
    lig {m:[[g, [{in:[g...], out:g}...]]]}
    ctx {fmt 1|2|3, chain: bool, rules:[{back:[set...], in:[set...], ahead:[set...], acts:[{idx, lk}]}]}
    rev {back, ahead, m}
    spos {fmt, m:[[g, vr]]}   vr = {dx, dy, da} or None
    pair {fmt 1|2, first:[g...], adj:[[[g1,g2], {first: vr, second: vr}]], class1/class2/matrix for fmt 2}
    curs {recs:[[g, {entry: anchor|None, exit: anchor|None}]]}      (GPOS 3; C07 only, not modelled in Shaper.tla)
    mbase / mmark {marks:[[g, {cls, x, y}]], bases:[[g, [anchor|None ...]]]}   anchor = {x, y}
"""
import itertools
import random

# ---- the glyph alphabet and GDEF used by all families -------------------------------------------
#  1, 2 base   3 ligature   4 mark (attach class 1, in mark set 1)   5 mark (attach class 2)   6 unclassified
GDEF_FULL = {"present": True,
             "class": [[1, "base"], [2, "base"], [3, "lig"], [4, "mark"], [5, "mark"]],
             "att": [[4, 1], [5, 2]],
             "sets": [[4], [5], [4, 5]]}
GDEF_NONE = {"present": False, "class": [], "att": [], "sets": []}


def lookup(subs, flags=(), useSet=False, markSet=1, attach=0, rtl=False, gpos=False):
    return {"flags": sorted(flags), "useSet": useSet, "markSet": markSet, "attach": attach, "rtl": rtl,
            "gpos": gpos, "subs": subs}


def single(m, fmt=2):
    return {"k": "single", "fmt": fmt, "m": sorted([list(x) for x in m.items()])}


def multi(m):
    return {"k": "multi", "m": sorted([[k, list(v)] for k, v in m.items()])}


def alt(m):
    return {"k": "alt", "m": sorted([[k, list(v)] for k, v in m.items()])}


def lig(m):
    return {"k": "lig", "m": sorted([[k, [{"in": list(i), "out": o} for i, o in v]] for k, v in m.items()])}


def rule(inp, acts=(), back=(), ahead=()):
    return {"back": [sorted(s) for s in back], "in": [sorted(s) for s in inp], "ahead": [sorted(s) for s in ahead],
            "acts": [{"idx": i, "lk": l} for i, l in acts]}


def ctx(rules, fmt=3, chain=False, trunc=None, zero=None):
    """trunc (format 2 only): the rule-set array is cut off before the class of this glyph set, as a
    reader can deliver it; the rules starting with that class then do not exist"""
    d = {"k": "ctx", "fmt": fmt, "chain": chain, "rules": rules}
    if trunc is not None:
        d["trunc"] = sorted(trunc)
    if zero is not None:
        # format 2: these sets are class 0 of their class definition (glyphs left out of it)
        d["zero"] = {k: sorted(v) for k, v in zero.items()}
    return d


def rev(m, back=(), ahead=()):
    return {"k": "rev", "back": [sorted(s) for s in back], "ahead": [sorted(s) for s in ahead],
            "m": sorted([list(x) for x in m.items()])}


def vr(dx=0, dy=0, da=0):
    return {"dx": dx, "dy": dy, "da": da}


def spos(m, fmt=2):
    return {"k": "spos", "fmt": fmt, "m": sorted([[k, v] for k, v in m.items()])}


def pair1(adj):
    """adj: {(g1, g2): (vr|None, vr|None)}"""
    return {"k": "pair", "fmt": 1, "first": sorted({k[0] for k in adj}),
            "adj": sorted([[list(k), {"first": v[0], "second": v[1]}] for k, v in adj.items()])}


def pair2(cov, class1, class2, matrix, alphabet):
    """class-based pair adjustment; matrix[c1][c2] = (vr|None, vr|None)."""
    adj = {}
    for g1 in cov:
        for g2 in alphabet:
            c1, c2 = class1.get(g1, 0), class2.get(g2, 0)
            if c1 < len(matrix) and c2 < len(matrix[c1]):
                adj[(g1, g2)] = matrix[c1][c2]
    d = pair1(adj)
    d.update({"fmt": 2, "first": sorted(cov), "class1": sorted([list(x) for x in class1.items()]),
              "class2": sorted([list(x) for x in class2.items()]),
              "matrix": [[{"first": c[0], "second": c[1]} for c in row] for row in matrix]})
    return d


def attach(kind, marks, bases):
    return {"k": kind, "marks": sorted([[g, {"cls": c, "x": x, "y": y}] for g, (c, x, y) in marks.items()]),
            "bases": sorted([[g, [None if a is None else {"x": a[0], "y": a[1]} for a in row]]
                             for g, row in bases.items()])}


# ---- TLA+ rendering ----------------------------------------------------------------------------
def _set(xs):
    return "{" + ", ".join(str(x) for x in xs) + "}"


def _seq(xs, f=str):
    return "<<" + ", ".join(f(x) for x in xs) + ">>"


def _fn(pairs, fv, fk=str):
    """Partial function as a TLA+ function value."""
    if not pairs:
        return "<<>>"           # the empty function
    return "(" + " @@ ".join("%s :> %s" % (fk(k), fv(v)) for k, v in pairs) + ")"


def _vr(v):
    if v is None:
        return "[nil |-> TRUE, dx |-> 0, dy |-> 0, da |-> 0]"
    return "[nil |-> FALSE, dx |-> %d, dy |-> %d, da |-> %d]" % (v["dx"], v["dy"], v["da"])


def _anchor(a):
    if a is None:
        return "[nil |-> TRUE, x |-> 0, y |-> 0]"
    return "[nil |-> FALSE, x |-> %d, y |-> %d]" % (a["x"], a["y"])


def _sub(st):
    k = st["k"]
    if k == "single":
        return '[k |-> "single", m |-> %s]' % _fn(st["m"], str)
    if k in ("multi", "alt"):
        return '[k |-> "%s", m |-> %s]' % (k, _fn(st["m"], lambda v: _seq(v)))
    if k == "lig":
        return '[k |-> "lig", m |-> %s]' % _fn(
            st["m"], lambda v: _seq(v, lambda r: "[in |-> %s, out |-> %d]" % (_seq(r["in"]), r["out"])))
    if k == "ctx":
        def r2(r):
            return "[back |-> %s, in |-> %s, ahead |-> %s, acts |-> %s]" % (
                _seq(r["back"], _set), _seq(r["in"], _set), _seq(r["ahead"], _set),
                _seq(r["acts"], lambda a: "[idx |-> %d, lk |-> %d]" % (a["idx"], a["lk"])))
        rules = [r for r in st["rules"] if "trunc" not in st or r["in"][0] != st["trunc"]]
        return '[k |-> "ctx", rules |-> %s]' % _seq(rules, r2)
    if k == "rev":
        return '[k |-> "rev", back |-> %s, ahead |-> %s, m |-> %s]' % (
            _seq(st["back"], _set), _seq(st["ahead"], _set), _fn(st["m"], str))
    if k == "spos":
        return '[k |-> "spos", m |-> %s]' % _fn(st["m"], _vr)
    if k == "pair":
        return '[k |-> "pair", first |-> %s, adj |-> %s]' % (
            _set(st["first"]),
            _fn(st["adj"], lambda v: "[first |-> %s, second |-> %s]" % (_vr(v["first"]), _vr(v["second"])),
                lambda kk: "<<%d, %d>>" % (kk[0], kk[1])))
    if k in ("mbase", "mmark"):
        # bases: anchors indexed by class 0..n-1 -> function on 0..n-1
        def row(r):
            if not r:
                return "<<>>"
            return "(" + " @@ ".join("%d :> %s" % (i, _anchor(a)) for i, a in enumerate(r)) + ")"
        return '[k |-> "%s", marks |-> %s, bases |-> %s]' % (
            k, _fn(st["marks"], lambda v: "[cls |-> %d, x |-> %d, y |-> %d]" % (v["cls"], v["x"], v["y"])),
            _fn(st["bases"], row))
    if k == "other":
        return '[k |-> "other"]'
    raise ValueError(k)


def _lookup(L):
    return "[flags |-> {%s}, useSet |-> %s, markSet |-> %d, attach |-> %d, rtl |-> %s, subs |-> %s]" % (
        ", ".join('"%s"' % f for f in L["flags"]), "TRUE" if L["useSet"] else "FALSE", L["markSet"],
        L["attach"], "TRUE" if L["rtl"] else "FALSE", _seq(L["subs"], _sub))


def _gdef(g):
    return "[present |-> %s, class |-> %s, att |-> %s, sets |-> %s]" % (
        "TRUE" if g["present"] else "FALSE", _fn(g["class"], lambda v: '"%s"' % v), _fn(g["att"], str),
        _seq(g["sets"], _set))


def _glyphs(out):
    return _seq(out, lambda o: "[g |-> %d, t |-> %s, x |-> %d, y |-> %d, adv |-> %d]" % (
        o["g"], _seq(o["t"]), o["x"], o["y"], o["adv"]))


def render_case(c):
    inputs = "AllInputs" if c.get("inputs") is None else "{" + ", ".join(_seq(i) for i in c["inputs"]) + "}"
    if c.get("expect") is None:
        exp = "[has |-> FALSE, out |-> <<>>]"
    else:
        exp = "[has |-> TRUE, out |-> %s]" % _glyphs(c["expect"])
    return "[id |-> %d, ll |-> %s, order |-> %s, gdef |-> %s, inputs |-> %s, expect |-> %s]" % (
        c["id"], _seq(c["ll"], _lookup), _seq(c["order"]), _gdef(c["gdef"]), inputs, exp)


def render_module(name, cases, alphabet, maxlen, budget=64):
    """A model module <name>.tla (EXTENDS Shaper) and the text of its cfg."""
    body = ["---- MODULE %s ----" % name, "EXTENDS Shaper", "Cat == {"]
    body.append(",\n".join("  " + render_case(c) for c in cases))
    body.append("}")
    body.append("Alpha == %s" % _set(sorted(alphabet)))
    body.append("====")
    cfg = "\n".join([
        "CONSTANTS", "  Catalogue <- Cat", "  Alphabet <- Alpha", "  MaxLen = %d" % maxlen,
        "  Budget = %d" % budget, "INIT Init", "NEXT Next", "CHECK_DEADLOCK FALSE", ""])
    return "\n".join(body) + "\n", cfg


# ---- families ------------------------------------------------------------------------------------
FLAGSETS = [
    dict(),
    dict(flags=["mark"]),
    dict(flags=["base"]),
    dict(flags=["lig"]),
    dict(flags=["base", "lig"]),
    dict(useSet=True, markSet=1),
    dict(useSet=True, markSet=2),
    dict(attach=1),
    dict(attach=2),
    dict(flags=["lig"], useSet=True, markSet=3),
    dict(flags=["mark"], useSet=True, markSet=1),      # IgnoreMarks supersedes the set
    dict(useSet=True, markSet=1, attach=2),            # the set supersedes the attachment type
    dict(rtl=True),
]


class Cat:
    def __init__(self):
        self.cases = []

    def add(self, family, ll, order=(1,), gdef=GDEF_FULL, inputs=None):
        self.cases.append({"id": len(self.cases) + 1, "family": family, "order": list(order), "gdef": gdef,
                           "ll": ll, "inputs": inputs})


def family_simple(cat):
    """GSUB 1 (both formats), 2, 3 under every flag combination; first matching subtable."""
    for fl in FLAGSETS:
        cat.add("single", [lookup([single({1: 2, 4: 5}, fmt=1)], **fl)])
        cat.add("single", [lookup([single({1: 6, 2: 1, 4: 3}, fmt=2)], **fl)])
        cat.add("multi", [lookup([multi({1: [1, 4], 4: [4, 4, 1]})], **fl)])
        cat.add("alt", [lookup([alt({1: [2, 3], 2: [], 5: [4]})], **fl)])
    # subtable order: the first applicable subtable wins
    cat.add("subtables", [lookup([single({1: 2}), single({1: 3, 2: 1}), multi({2: [2, 2]})])])
    cat.add("subtables", [lookup([multi({1: [1, 1]}), single({1: 3, 2: 1})])])
    cat.add("subtables", [lookup([alt({1: []}), single({1: 3})])])          # empty alternates: does not apply
    cat.add("single", [lookup([single({1: 2})])], gdef=GDEF_NONE)
    cat.add("single", [lookup([single({1: 2})], flags=["base"])], gdef=GDEF_NONE)


def family_lig(cat):
    ligsets = [
        {1: [([1], 3)]},
        {1: [([2], 3), ([1], 6)]},
        {1: [([2, 1], 3), ([2], 6)]},                       # longer candidate first
        {1: [([2], 6), ([2, 1], 3)]},                       # shorter candidate first (shadows)
        {1: [([2, 6], 3), ([2], 6)], 2: [([1], 3)]},        # partially matching first candidate
        {1: [([2, 2], 3), ([2], 3), ([1, 2], 6)]},
        {4: [([5], 4)], 1: [([4], 3)]},                     # marks as components
        {1: [([], 2)]},                                      # one-component "ligature"
    ]
    for ls in ligsets:
        for fl in FLAGSETS[:9]:
            cat.add("lig", [lookup([lig(ls)], **fl)])
    cat.add("lig", [lookup([lig({1: [([2], 3)]}), single({1: 6})], flags=["mark"])])
    cat.add("lig", [lookup([lig({1: [([2], 3)]})])], gdef=GDEF_NONE)


def family_order(cat):
    """several lookups, every order, also repeated and out-of-range indices in the order"""
    ll = [lookup([single({1: 2})]), lookup([lig({2: [([2], 3)]})], flags=["mark"]), lookup([multi({3: [1, 1]})])]
    for order in itertools.permutations([1, 2, 3]):
        cat.add("order", ll, order=order)
    cat.add("order", ll, order=(1, 1, 2, 2))
    cat.add("order", ll, order=(3, 2))
    cat.add("order", ll, order=())
    # the filter of a lookup ends with the lookup: an unflagged lookup that acts on a mark, or matches across one,
    # after a lookup that ignores marks (and the other way round)
    ll2 = [lookup([lig({1: [([2], 3)]})], flags=["mark"]), lookup([single({4: 5})]), lookup([lig({1: [([2], 6)]})]),
           lookup([single({4: 5, 1: 2})], flags=["base"])]
    for order in ((1, 2), (1, 3), (2, 1), (3, 1), (1, 2, 3), (4, 2), (4, 3), (1, 4, 2), (4, 1, 3)):
        cat.add("order", ll2, order=order)


CHILDREN = {
    "single": lambda: lookup([single({1: 6, 2: 1})]),
    "multi": lambda: lookup([multi({1: [1, 2], 2: [2, 2, 2]})]),
    "lig": lambda: lookup([lig({1: [([2], 3), ([1], 6)], 2: [([1], 3)]})]),
    "ligm": lambda: lookup([lig({1: [([2], 3)], 2: [([2], 3)]})], flags=["mark"]),
    "alt": lambda: lookup([alt({1: [2], 2: [1]})]),
    # absorbs a following mark (which a parent with IgnoreMarks skipped) into a ligature
    "ligmk": lambda: lookup([lig({1: [([4], 3)], 2: [([4, 4], 3), ([4], 6)]})]),
    # looks at the glyph after the current one
    "lignext": lambda: lookup([lig({3: [([6], 2), ([2], 1)], 6: [([1], 2)], 1: [([2], 3)]})]),
}


def family_ctx(cat, deep=False):
    """GSUB 5 in all three formats: nested actions at every sequence index, length-changing children"""
    pats = [[{1}], [{1}, {2}], [{1}, {1}], [{2}, {1}, {2}], [{1, 2}, {1, 2}]]
    kids = [k for k in CHILDREN if k != "lignext"]
    for fmt in (1, 2, 3):
        for p in pats:
            if fmt == 1 and any(len(s) != 1 for s in p):
                continue
            for fl in (dict(), dict(flags=["mark"])):
                for kid in kids:
                    for idx in range(len(p)):
                        cat.add("ctx", [lookup([ctx([rule(p, [(idx, 2)])], fmt=fmt)], **fl), CHILDREN[kid]()])
                # two actions
                for k1, k2 in (("single", "multi"), ("multi", "single"), ("lig", "single"), ("multi", "lig"),
                               ("ligmk", "lignext"), ("ligmk", "single")):
                    for i1 in range(len(p)):
                        for i2 in range(len(p)):
                            if not deep and (i1, i2) not in ((0, 0), (0, len(p) - 1), (len(p) - 1, 0)):
                                continue
                            cat.add("ctx2", [lookup([ctx([rule(p, [(i1, 2), (i2, 3)])], fmt=fmt)], **fl),
                                             CHILDREN[k1](), CHILDREN[k2]()])
    # several rules, first match wins (formats 1 and 2 group rules by first glyph / class)
    for fmt in (1, 2):
        cat.add("ctxrules", [lookup([ctx([rule([{1}, {2}], [(0, 2)]), rule([{1}], [(0, 3)]),
                                          rule([{2}, {2}], [(1, 2)])], fmt=fmt)]),
                             CHILDREN["single"](), CHILDREN["multi"]()])
        cat.add("ctxrules", [lookup([ctx([rule([{1}], [(0, 3)]), rule([{1}, {2}], [(0, 2)])], fmt=fmt)]),
                             CHILDREN["single"](), CHILDREN["multi"]()])
    # nested contextual lookup inside a contextual lookup
    cat.add("ctxnest", [lookup([ctx([rule([{1}, {1}, {2}], [(0, 2)])])]),
                        lookup([ctx([rule([{1}, {1}], [(1, 3), (0, 3)])])]), CHILDREN["multi"]()])
    cat.add("ctxnest", [lookup([ctx([rule([{1}, {2}], [(1, 2), (0, 2)])])]),
                        lookup([ctx([rule([{1, 2}], [(0, 3)])])]), CHILDREN["single"]()])


def family_ctxnest(cat):
    """contextual lookups nested in contextual lookups, every format combination, actions before and
    after the nested contextual action; meant to be run on strings long enough for several matches
    (scratch buffers and stack entries are recycled from the second match on)"""
    for pf in (1, 2, 3):
        for cf in (1, 2, 3):
            for chain in (False, True):
                for acts in ([(1, 2), (2, 3)], [(0, 3), (1, 2), (2, 3)], [(2, 2), (0, 3)]):
                    for pchain in (False, True):
                        parent = ctx([rule([{1}, {2}, {1}], acts)], fmt=pf, chain=pchain)
                        child = ctx([rule([{2}], [(0, 4)]), rule([{1}], [(0, 4)])], fmt=cf, chain=chain)
                        cat.add("ctxnest", [lookup([parent]), lookup([child]), lookup([single({1: 6, 2: 5})]),
                                            lookup([single({1: 2, 2: 1})])])
    # a nested contextual rule with two input glyphs, followed by another action of the parent
    for pf in (1, 2, 3):
        cat.add("ctxnest", [lookup([ctx([rule([{1}, {2}], [(0, 2), (1, 3)])], fmt=pf)]),
                            lookup([ctx([rule([{1}, {2}], [(1, 4)])], fmt=pf)]),
                            lookup([single({2: 5, 6: 1})]), lookup([single({2: 6})])])
    # three levels: the innermost lookup grows the sequence inside the input of BOTH enclosing matches, and
    # the outermost rule has a later action at / behind the new glyphs
    for pf in (1, 2, 3):
        for cf, chain in ((1, False), (3, False), (3, True), (2, True)):
            for first in (0, 1):
                for idx in (1, 2, 3):
                    if idx <= first:
                        continue
                    cat.add("ctxnest", [lookup([ctx([rule([{1}, {1}, {1}], [(first, 2), (idx, 4)])], fmt=pf)]),
                                        lookup([ctx([rule([{1}], [(0, 3)])], fmt=cf, chain=chain)]),
                                        lookup([multi({1: [1, 2]})]), lookup([single({1: 5, 2: 6})])])


def family_ctxskip(cat):
    """a nested ligature lookup with its own filter under a parent that matches the glyphs the ligature
    skips: positions of the parent's later actions must track the removal (testcases section 3)"""
    lig3 = lambda: lookup([lig({1: [([1, 1], 3), ([1], 6)]})], flags=["mark"])
    lig2 = lambda: lookup([lig({1: [([1], 3)]})], flags=["mark"])
    tgt = lambda: lookup([single({1: 5, 4: 2, 3: 6, 6: 3})])
    pats = [[{1}, {4}, {1}, {4}, {1}], [{1}, {4}, {1}, {4}, {1}, {1, 4}], [{1}, {4}, {4}, {1}, {1}], [{1}, {1}, {4}, {1}],
            [{1}, {4}, {1}]]
    for fmt in (1, 2, 3):
        for p in pats:
            if fmt == 1 and any(len(x) != 1 for x in p):
                continue
            if fmt == 2 and not _partition_ok([sorted(x) for x in p]):
                continue
            for child in (lig3, lig2):
                for idx in range(len(p)):
                    cat.add("ctxskip", [lookup([ctx([rule(p, [(0, 2), (idx, 3)])], fmt=fmt)]), child(), tgt()])
                cat.add("ctxskip", [lookup([ctx([rule(p, [(len(p) - 1, 3), (0, 2), (1, 3)])], fmt=fmt)]), child(), tgt()])
    for p in pats[:3]:
        cat.add("ctxskip", [lookup([ctx([rule(p, [(0, 2), (2, 3)], back=[{4}], ahead=[{4}])], fmt=3, chain=True)]),
                            lig3(), tgt()])


def family_ctxfilt(cat):
    """nested lookups are judged by their OWN flags, mark filtering set and attachment type (testcases 2_19),
    whatever the enclosing lookups use; a nested match never extends beyond the enclosing match (2_07), also
    through ignored glyphs that trail the nested match (2_08) and at every nesting depth"""
    fls = [dict(), dict(flags=["mark"]), dict(useSet=True, markSet=1), dict(useSet=True, markSet=2),
           dict(attach=1), dict(attach=2)]
    for pf in fls:
        for cf in fls:
            if pf == cf:
                continue
            for fmt in (1, 3):
                cat.add("ctxfilt", [lookup([ctx([rule([{1}, {1}], [(0, 2)])], fmt=fmt)], **pf),
                                    lookup([lig({1: [([1], 3)]})], **cf)])
                cat.add("ctxfilt", [lookup([ctx([rule([{1}, {1}], [(1, 2), (0, 3)])], fmt=fmt)], **pf),
                                    lookup([single({1: 2})], **cf),
                                    lookup([lig({1: [([2], 3), ([4], 6), ([5], 6)]})], **cf)])
    # sibling actions with the same flag bits but different mark filtering sets / attachment types, in one
    # rule and in two rules (which one runs first depends on the input: a filter must never be remembered
    # by flag bits alone, neither within a call nor between calls)
    for a, b in ((dict(useSet=True, markSet=1), dict(useSet=True, markSet=2)),
                 (dict(useSet=True, markSet=2), dict(useSet=True, markSet=3)),
                 (dict(attach=1), dict(attach=2)),
                 (dict(flags=["base"], useSet=True, markSet=1), dict(flags=["base"], useSet=True, markSet=2))):
        for fmt in (1, 3):
            cat.add("ctxfilt", [lookup([ctx([rule([{1}, {1}], [(0, 2), (0, 3)])], fmt=fmt)], flags=["mark"]),
                                lookup([lig({1: [([1], 3)]})], **a), lookup([lig({1: [([1], 6)], 3: [([1], 2)]})], **b)])
            cat.add("ctxfilt", [lookup([ctx([rule([{1}, {1}], [(0, 2)]), rule([{2}, {2}], [(0, 3)])], fmt=fmt)], flags=["mark"]),
                                lookup([lig({1: [([1], 3)]})], **a), lookup([lig({2: [([2], 6)]})], **b)])
    # three levels: the middle lookup ignores glyphs the outer one does not; the innermost lookup could use
    # a glyph directly behind the outer match if the middle match were allowed to grow beyond it
    for pf in (dict(), dict(useSet=True, markSet=1), dict(attach=2)):
        for cf in (dict(flags=["mark"]), dict(useSet=True, markSet=2), dict(attach=1)):
            for f1 in (1, 2, 3):
                for f2 in (1, 2, 3):
                    for chain in (False, True):
                        for inner in (lig({1: [([4], 3), ([5], 6)]}), multi({1: [1, 1]}),
                                      ctx([rule([{1}, {4, 5}], [(1, 4)])], fmt=3)):
                            cat.add("ctxfilt", [lookup([ctx([rule([{1}, {1}], [(0, 2)])], fmt=f1)], **pf),
                                                lookup([ctx([rule([{1}, {1}], [(1, 3)])], fmt=f2, chain=chain)], **cf),
                                                lookup([inner]), lookup([single({4: 2, 5: 2})])])


def family_ctxtrail(cat):
    """rewrites in the region of ignored glyphs that trail an outer match (the outer lookup ignores marks, its
    match is extended over the marks behind its last input glyph, testcases 2_08): a nested lookup without
    flags merges, deletes or multiplies those marks; the end of the outer match has to follow, the next action
    of the outer rule runs up to the new end (not beyond it, not beyond the end of the text)"""
    inners = [lig({4: [([4], 5), ([5], 4)]}), multi({4: [4, 4], 5: [4, 5, 4]}), lig({4: [([4, 4], 5)], 5: [([4], 5)]})]
    lasts = [lig({1: [([5, 2], 3), ([4, 2], 3), ([5], 6), ([4], 6)]}), single({1: 2, 4: 1, 5: 1})]
    for of, cf in ((1, 1), (2, 2), (3, 3), (1, 3), (3, 1)):
        for pat in ([{1}, {4}, {4}], [{1}, {4}, {5}]):
            for inner in inners:
                for last in lasts:
                    for cacts in ([(1, 3)], [(2, 3), (1, 3)]):
                        cat.add("ctxtrail", [lookup([ctx([rule([{1}], [(0, 2), (0, 4)])], fmt=of)], flags=["mark"]),
                                             lookup([ctx([rule(pat, cacts)], fmt=cf)]),
                                             lookup([inner]), lookup([last])])


def family_bigid(cat):
    """glyph ids over the whole 16-bit range: GSUB 1.1 adds its delta modulo 65536; coverage and class
    lookups are by id, not by small index"""
    ins = [[100], [40000], [100, 40000, 100], [65535, 0, 65535], [0], [65535], [32768, 32767], [300, 100, 65535, 40000]]
    cat.add("bigid", [lookup([single({100: 40000}, fmt=1)])], inputs=ins, gdef=GDEF_NONE)
    cat.add("bigid", [lookup([single({40000: 100}, fmt=1)])], inputs=ins, gdef=GDEF_NONE)
    cat.add("bigid", [lookup([single({65535: 0, 99: 100}, fmt=1)])], inputs=ins + [[99, 65535]], gdef=GDEF_NONE)
    cat.add("bigid", [lookup([single({0: 65535, 32768: 32767}, fmt=1)])], inputs=ins, gdef=GDEF_NONE)
    cat.add("bigid", [lookup([single({32767: 32768, 0: 1}, fmt=1)])], inputs=ins + [[32767, 0]], gdef=GDEF_NONE)
    cat.add("bigid", [lookup([single({100: 65535, 65535: 0, 0: 100}, fmt=2)])], inputs=ins, gdef=GDEF_NONE)
    cat.add("bigid", [lookup([multi({65535: [0, 65535], 0: [40000]})])], inputs=ins, gdef=GDEF_NONE)
    cat.add("bigid", [lookup([lig({65535: [([0], 40000)], 40000: [([100], 65535)]})])], inputs=ins, gdef=GDEF_NONE)
    cat.add("bigid", [lookup([alt({65535: [300, 0]})])], inputs=ins, gdef=GDEF_NONE)
    for fmt in (1, 2, 3):
        cat.add("bigid", [lookup([ctx([rule([{65535}, {0}], [(1, 2)], back=[{100}] if fmt != 2 else [])],
                                      fmt=fmt, chain=fmt != 2)]),
                          lookup([single({0: 65535}, fmt=1)])], inputs=ins + [[100, 65535, 0], [65535, 0]], gdef=GDEF_NONE)
    cat.add("bigid", [lookup([spos({65535: vr(1, 2, 3), 0: vr(-1, -2, -3)})], gpos=True)], inputs=ins, gdef=GDEF_NONE)
    cat.add("bigid", [lookup([pair1({(65535, 0): (vr(0, 0, -50), vr(1, 0, 0)), (100, 40000): (vr(0, 0, 7), None)})],
                             gpos=True)], inputs=ins, gdef=GDEF_NONE)


def family_chain(cat):
    """GSUB 6 in all three formats with backtrack/lookahead, and GSUB 8"""
    shapes = [
        dict(back=[], inp=[{1}], ahead=[{2}]),
        dict(back=[{2}], inp=[{1}], ahead=[]),
        dict(back=[{2}], inp=[{1}, {1}], ahead=[{2}]),
        dict(back=[{1}, {2}], inp=[{1}], ahead=[{2}, {1}]),
        dict(back=[], inp=[{1}, {2}], ahead=[]),
        dict(back=[{1, 2}], inp=[{1, 2}], ahead=[{1, 2}]),
        # patterns that name a glyph the lookup's own filter may ignore: an ignored glyph can never be
        # matched, wherever it stands (in particular as the last glyph of the string)
        dict(back=[], inp=[{1}, {4}], ahead=[]),
        dict(back=[], inp=[{1}], ahead=[{4}]),
        dict(back=[{4}], inp=[{1}], ahead=[]),
        dict(back=[], inp=[{1, 2}, {1, 4}], ahead=[{2, 4}]),
    ]
    for fmt in (1, 2, 3):
        for sh in shapes:
            if fmt == 1 and any(len(s) != 1 for s in sh["back"] + sh["inp"] + sh["ahead"]):
                continue
            if fmt == 2 and not all(_partition_ok([sorted(x) for x in part])
                                    for part in (sh["back"], sh["inp"], sh["ahead"])):
                continue
            for fl in (dict(), dict(flags=["mark"]), dict(flags=["base"])):
                for kid in ("single", "multi", "lig"):
                    for idx in range(len(sh["inp"])):
                        cat.add("chain", [lookup([ctx([rule(sh["inp"], [(idx, 2)], back=sh["back"],
                                                            ahead=sh["ahead"])], fmt=fmt, chain=True)], **fl),
                                          CHILDREN[kid]()])
    # format 2 with class 0 ("every glyph not in the class definition" - here: the complement within
    # the glyph universe 1..6) in backtrack / input / lookahead, under filters that make the first or
    # last glyph of the string an ignored one
    U = set(range(1, 7))
    for fl in (dict(flags=["mark"]), dict(flags=["base"]), dict()):
        for kid in ("single", "multi"):
            zb = U - {2}
            cat.add("chain0", [lookup([ctx([rule([{1}], [(0, 2)], back=[{2}]), rule([{1}], [(0, 3)], back=[zb])],
                                           fmt=2, chain=True, zero={"back": zb})], **fl),
                               CHILDREN[kid](), lookup([single({1: 5})])])
            cat.add("chain0", [lookup([ctx([rule([{1}], [(0, 2)], ahead=[{2}]), rule([{1}], [(0, 3)], ahead=[zb])],
                                           fmt=2, chain=True, zero={"ahead": zb})], **fl),
                               CHILDREN[kid](), lookup([single({1: 5})])])
            zi = U - {1, 2}
            cat.add("chain0", [lookup([ctx([rule([{1}, {2}], [(0, 2)]), rule([{1}, zi], [(0, 3)])], fmt=2,
                                           zero={"in": zi})], **fl), CHILDREN[kid](), lookup([single({1: 5})])])
            cat.add("chain0", [lookup([ctx([rule([{1}, {2}], [(1, 2)], back=[zb, {2}], ahead=[{2}, zb])], fmt=2,
                                           chain=True, zero={"back": zb, "ahead": zb})], **fl), CHILDREN[kid]()])
    # a child that ignores marks under a parent that does not, with lookahead in the child
    cat.add("chainchild", [lookup([ctx([rule([{1}, {4}, {2}], [(0, 2)])])]),
                           lookup([ctx([rule([{1}], [(0, 3)], ahead=[{2}])], chain=True)], flags=["mark"]),
                           CHILDREN["single"]()])
    for fl in (dict(), dict(flags=["mark"])):
        cat.add("rev", [lookup([rev({1: 6, 2: 3}, back=[{1, 2}], ahead=[])], **fl)])
        cat.add("rev", [lookup([rev({1: 6}, back=[], ahead=[{2}, {1}])], **fl)])
        cat.add("rev", [lookup([rev({1: 2}, back=[{2}], ahead=[])], **fl)])     # order-sensitive: undefined
    # reverse chaining under every filter, with context sets that name glyphs the filter ignores (they can
    # never be matched, wherever they stand: first glyph of the text, last glyph, between context glyphs)
    for fl in FLAGSETS[:10]:
        cat.add("rev", [lookup([rev({1: 6, 2: 3}, back=[{1, 2, 4}], ahead=[])], **fl)])
        cat.add("rev", [lookup([rev({1: 6}, back=[{1, 4}, {2, 4}], ahead=[{1, 2, 4, 5}])], **fl)])
        cat.add("rev", [lookup([rev({1: 6, 4: 3}, back=[{4, 5, 1}], ahead=[{4, 2}])], **fl)])
        cat.add("rev", [lookup([rev({2: 6}, back=[], ahead=[{1, 4}, {1, 4}])], **fl)])


def family_gpos(cat):
    """GPOS 1, 2 (both formats), 4, 6, 7, 8"""
    for fl in FLAGSETS[:6]:
        cat.add("spos", [lookup([spos({1: vr(10, 0, 0), 2: vr(10, 0, 0)}, fmt=1)], gpos=True, **fl)])
        cat.add("spos", [lookup([spos({1: vr(1, 2, 3), 4: vr(0, -7, 0), 2: None})], gpos=True, **fl)])
        cat.add("pair", [lookup([pair1({(1, 2): (vr(0, 0, -50), None), (1, 1): (vr(0, 0, 5), vr(3, 0, 0)),
                                        (2, 1): (None, vr(0, 1, 0)), (4, 4): (vr(1, 1, 1), None)})],
                                gpos=True, **fl)])
        cat.add("pair", [lookup([pair2({1, 2}, {1: 1, 2: 0}, {2: 1, 4: 2},
                                       [[(None, None), (vr(0, 0, -20), None), (vr(0, 0, 1), vr(2, 0, 0))],
                                        [(vr(0, 0, 7), None), (vr(0, 0, -50), vr(0, 0, 9)), (None, None)]],
                                       range(1, 7))], gpos=True, **fl)])
    # second subtable only reached when the first does not apply
    cat.add("pair", [lookup([pair1({(1, 2): (vr(0, 0, -50), None)}), pair1({(1, 1): (vr(0, 0, 9), None),
                                                                               (1, 2): (vr(0, 0, 1), None)})],
                            gpos=True)])
    marks = {4: (0, 10, 20), 5: (1, -5, 0)}
    bases = {1: [(100, 200), (7, 8)], 2: [(50, 60), None], 3: [(1, 1), (2, 2)]}
    for fl in (dict(), dict(flags=["lig"]), dict(useSet=True, markSet=1)):
        cat.add("mbase", [lookup([attach("mbase", marks, bases)], gpos=True, **fl)])
    cat.add("mmark", [lookup([attach("mmark", {5: (0, 1, 2), 4: (0, 3, 4)}, {4: [(30, 40)], 5: [(9, 9)]})],
                             gpos=True)])
    # mark-to-mark and mark-to-base under every way of filtering marks (the lookup acts only on marks its own
    # filter keeps; the attachment glyph is the nearest preceding covered glyph), two mark classes
    for fl in (dict(useSet=True, markSet=1), dict(useSet=True, markSet=2), dict(useSet=True, markSet=3),
               dict(attach=1), dict(attach=2), dict(flags=["base"]), dict(flags=["lig"]), dict(flags=["mark"])):
        cat.add("mmark", [lookup([attach("mmark", {5: (0, 1, 2), 4: (1, 3, 4)},
                                         {4: [(30, 40), (31, 41)], 5: [(9, 9), None]})], gpos=True, **fl)])
        cat.add("mbase", [lookup([attach("mbase", {4: (0, 10, 20), 5: (1, -5, 0)},
                                         {1: [(100, 200), (7, 8)], 3: [None, (2, 2)]})], gpos=True, **fl)])
    # attachment after an earlier positioning lookup moved the mark or changed the advances in between
    cat.add("mbase", [lookup([spos({1: vr(0, 0, 25), 4: vr(0, 0, 3)})], gpos=True),
                      lookup([attach("mbase", {4: (0, 10, 20), 5: (0, 1, 1)}, {1: [(100, 200)], 2: [(50, 60)]})], gpos=True)],
            order=(1, 2))
    cat.add("mmark", [lookup([attach("mbase", {4: (0, 10, 20), 5: (0, 1, 1)}, {1: [(100, 200)], 2: [(50, 60)]})], gpos=True),
                      lookup([attach("mmark", {5: (0, 1, 2), 4: (0, 3, 4)}, {4: [(30, 40)], 5: [(9, 9)]})], gpos=True)],
            order=(1, 2))
    # contextual positioning (GPOS 7/8): children are positioning lookups
    for fmt in (1, 2, 3):
        cat.add("ctxpos", [lookup([ctx([rule([{1}, {2}], [(0, 2), (1, 2)])], fmt=fmt)], gpos=True),
                           lookup([spos({1: vr(5, 0, 0), 2: vr(0, 0, -9)})], gpos=True)])
        cat.add("ctxpos", [lookup([ctx([rule([{1}, {2}], [(1, 2)], back=[{2}], ahead=[{1}])], fmt=fmt, chain=True)],
                                  gpos=True, flags=["mark"]),
                           lookup([spos({2: vr(0, 4, 0)})], gpos=True)])
        cat.add("ctxpos", [lookup([ctx([rule([{1}, {2}], [(0, 2)])], fmt=fmt)], gpos=True),
                           lookup([pair1({(1, 2): (vr(0, 0, -50), vr(1, 0, 0))})], gpos=True)])


def curs(recs):
    an = lambda a: None if a is None else {"x": a[0], "y": a[1]}
    return {"k": "curs", "recs": sorted([[g, {"entry": an(e), "exit": an(x)}] for g, (e, x) in recs.items()])}


def family_curs(cat):
    """C07 only: cursive attachment (GPOS 3) is inside C07's quantifier (safety, conservation, history
    independence) but outside C06's (no reference semantics: the code documents it as incomplete)"""
    full = {1: ((0, 0), (50, 10)), 2: ((5, -3), (60, 0)), 4: (None, (7, 7)), 5: ((1, 1), None), 6: (None, None)}
    for fl in FLAGSETS[:6]:
        cat.add("curs", [lookup([curs(full)], gpos=True, **fl)])
    cat.add("curs", [lookup([curs({1: ((0, 0), (50, 10))})], gpos=True)])
    cat.add("curs", [lookup([curs({2: ((0, 0), (9, 9))}), curs(full)], gpos=True)])
    # as a nested action at the first, last and an out-of-range position of a match that reaches the end
    for fmt in (1, 2, 3):
        for acts in ([(0, 2)], [(1, 2)], [(1, 2), (0, 2)], [(2, 2), (1, 2)]):
            cat.add("curs", [lookup([ctx([rule([{1}, {2}], acts)], fmt=fmt)], gpos=True),
                             lookup([curs(full)], gpos=True)])
    cat.add("curs", [lookup([ctx([rule([{1}, {2}], [(1, 2)], back=[{2}], ahead=[{1}])], chain=True)], gpos=True,
                            flags=["mark"]), lookup([curs(full)], gpos=True, flags=["mark"])])
    cat.add("curs", [lookup([spos({1: vr(3, 4, 5), 2: vr(-1, 0, 2)})], gpos=True), lookup([curs(full)], gpos=True)],
            order=(1, 2, 1, 2))


def family_block(cat):
    """the first subtable that MATCHES wins even when it changes nothing: contextual rules without nested
    actions (the 'ignore sub' / 'ignore pos' idiom) in all six formats, identity substitutions, explicit zero
    adjustments.  The glyphs of such a match are consumed: later subtables and later rules must not apply at
    the same position or inside the matched input."""
    for fl in (dict(), dict(flags=["mark"])):
        for fmt in (1, 2, 3):
            for chain in (False, True):
                # exception for "1 2", otherwise substitute; the follower would also match inside the exception
                cat.add("block", [lookup([ctx([rule([{1}, {2}], [])], fmt=fmt, chain=chain),
                                          single({1: 6, 2: 3})], **fl)])
                # two rules of one subtable: the action-less one comes first
                cat.add("block", [lookup([ctx([rule([{1}, {2}], []), rule([{1}], [(0, 2)])], fmt=fmt, chain=chain)], **fl),
                                  CHILDREN["single"]()])
                # action-less subtable followed by a contextual subtable with an action
                cat.add("block", [lookup([ctx([rule([{1}, {2}], [])], fmt=fmt, chain=chain),
                                          ctx([rule([{1}], [(0, 2)]), rule([{2}], [(0, 2)])], fmt=fmt, chain=chain)], **fl),
                                  CHILDREN["multi"]()])
            # exception by context only (single input glyph): "ignore sub 1 when preceded by 2 / followed by 2"
            cat.add("block", [lookup([ctx([rule([{1}], [], back=[{2}])], fmt=fmt, chain=True), single({1: 6})], **fl)])
            cat.add("block", [lookup([ctx([rule([{1}], [], ahead=[{2}])], fmt=fmt, chain=True),
                                      lig({1: [([2], 3)]})], **fl)])
            # positioning: action-less contextual positioning shields a pair from the kerning that follows
            cat.add("block", [lookup([ctx([rule([{1}, {2}], [])], fmt=fmt, chain=True),
                                      pair1({(1, 2): (vr(0, 0, -50), None), (2, 1): (vr(0, 0, 7), None)})],
                                     gpos=True, **fl)])
            cat.add("block", [lookup([ctx([rule([{1}], [], ahead=[{2}])], fmt=fmt, chain=True),
                                      spos({1: vr(5, 0, 0), 2: vr(0, 3, 0)})], gpos=True, **fl)])
        # identity substitution, then a real one
        cat.add("block", [lookup([single({1: 1}), single({1: 6, 2: 3})], **fl)])
        cat.add("block", [lookup([multi({1: [1]}), multi({1: [2, 2]})], **fl)])
        # explicit zero adjustments (kerning exceptions) in front of class-based kerning
        cat.add("block", [lookup([pair1({(1, 2): (None, None)}),
                                  pair2({1, 2}, {1: 1, 2: 1}, {1: 1, 2: 1}, [[(None, None), (None, None)],
                                                                             [(None, None), (vr(0, 0, -50), None)]],
                                        range(1, 7))], gpos=True, **fl)])
        cat.add("block", [lookup([pair1({(1, 2): (vr(0, 0, 0), vr(0, 0, 0))}),
                                  pair1({(1, 2): (vr(0, 0, -50), vr(1, 0, 0)), (2, 2): (vr(0, 0, 4), None)})],
                                 gpos=True, **fl)])
        cat.add("block", [lookup([spos({1: None}), spos({1: vr(5, 0, 0), 2: vr(1, 1, 1)})], gpos=True, **fl)])
        cat.add("block", [lookup([spos({1: vr(0, 0, 0)}), spos({1: vr(5, 0, 0)})], gpos=True, **fl)])


# GDEF with 16-bit mark attachment classes: 257 and 513 agree with classes 1 and 2 in their low byte only
GDEF_BIGATT = {"present": True,
               "class": [[1, "base"], [2, "base"], [3, "lig"], [4, "mark"], [5, "mark"], [6, "mark"]],
               "att": [[4, 257], [5, 2], [6, 513]],
               "sets": [[4], [5], [4, 5]]}


def family_long(cat):
    """state that is kept per match, per lookup pass or per call shows on texts with MANY matches: repeated
    patterns of 60..140 glyphs under contextual rules with one and two nested actions (the action budget is per
    match), and under parent/child lookups with different filters that meet the same glyphs again and again."""
    rep = lambda pat, n: [g for _ in range(n) for g in pat]
    for fmt in (1, 2, 3):
        for chain in (False, True):
            cat.add("long", [lookup([ctx([rule([{1}, {2}], [(0, 2)])], fmt=fmt, chain=chain)]), CHILDREN["single"]()],
                    inputs=[rep([1, 2], 70), rep([1, 2, 4], 45)])
            cat.add("long", [lookup([ctx([rule([{1}, {2}], [(1, 2), (0, 2)])], fmt=fmt, chain=chain)], flags=["mark"]),
                             CHILDREN["single"]()],
                    inputs=[rep([1, 4, 2], 40), rep([1, 2], 66)])
    cat.add("long", [lookup([ctx([rule([{1}, {2}], [(0, 2), (1, 3)])])]), CHILDREN["multi"](), CHILDREN["single"]()],
            inputs=[rep([1, 2], 40)])
    # parent and child with different non-trivial filters over a text that repeats the glyphs they judge differently
    fls = [dict(flags=["mark"]), dict(flags=["lig"]), dict(useSet=True, markSet=1), dict(useSet=True, markSet=2),
           dict(attach=1), dict(attach=2), dict(flags=["base"])]
    for pf in fls:
        for cf in fls:
            if pf == cf:
                continue
            for fmt in (1, 3):
                cat.add("long", [lookup([ctx([rule([{1}, {1}], [(0, 2)])], fmt=fmt)], **pf),
                                 lookup([lig({1: [([1], 3), ([4], 6), ([5], 6)]})], **cf)],
                        inputs=[rep([1, 4, 1, 5], 6), rep([1, 5, 1, 4, 1], 5), rep([1, 3, 1], 6)])
    # the repository's test 2_08 repeated: IgnoreMarks parent, child with another filter, glyph count unchanged
    cat.add("long", [lookup([ctx([rule([{1}, {1}], [(0, 2)])])], flags=["mark"]),
                     lookup([single({1: 2, 4: 5})], flags=["lig"])], inputs=[rep([1, 4], 8), rep([1, 4, 1], 7)])
    # 16-bit attachment classes
    for at in (1, 2):
        cat.add("long", [lookup([single({4: 1, 5: 1, 6: 1, 1: 2})], attach=at)], gdef=GDEF_BIGATT,
                inputs=[[1, 4, 5, 6], [4, 4, 6, 5, 1]])
        cat.add("long", [lookup([lig({1: [([1], 3)]})], attach=at)], gdef=GDEF_BIGATT,
                inputs=[[1, 4, 1], [1, 5, 1], [1, 6, 1], [1, 4, 6, 1, 5, 1]])


def family_malformed(cat):
    """C07: shapes the reader can deliver but that are not well formed (outputs are not compared)"""
    cat.add("mal-seqidx", [lookup([ctx([rule([{1}, {2}], [(2, 2), (0, 2)])])]), CHILDREN["single"]()])
    cat.add("mal-seqidx", [lookup([ctx([rule([{1}], [(5, 2), (0, 2), (0, 2)])], fmt=1)]), CHILDREN["multi"]()])
    cat.add("mal-lookup", [lookup([ctx([rule([{1}], [(0, 9), (0, 2)])])]), CHILDREN["single"]()])
    cat.add("mal-order", [lookup([single({1: 2})])], order=(7, 1))
    cat.add("mal-emptyrepl", [lookup([multi({1: [], 2: [2, 2]})])])
    cat.add("mal-markset", [lookup([single({1: 2, 4: 5})], useSet=True, markSet=9)])
    cat.add("mal-markset", [lookup([lig({1: [([2], 3)]})], useSet=True, markSet=4)])
    cat.add("mal-self", [lookup([ctx([rule([{1}], [(0, 1)])])])])                       # self-referential
    cat.add("mal-self", [lookup([ctx([rule([{1}, {1}], [(0, 2), (1, 1)])])]), CHILDREN["multi"]()])
    cat.add("mal-budget", [lookup([ctx([rule([{1}], [(0, 2)] * 70)])]), CHILDREN["multi"]()])
    cat.add("mal-budget", [lookup([ctx([rule([{1}, {2}], [(0, 2)] * 40 + [(1, 3)] * 40)])]),
                           CHILDREN["single"](), CHILDREN["multi"]()])
    # a rule that exhausts the budget next to a cheap rule: state left behind by the first must not
    # leak into later matches / later calls on the same object
    cat.add("mal-budget-mix", [lookup([ctx([rule([{1}, {2}], [(0, 2)] * 70), rule([{2}], [(0, 3)])], fmt=1)]),
                               CHILDREN["multi"](), CHILDREN["single"]()])
    cat.add("mal-budget-mix", [lookup([ctx([rule([{1}], [(0, 3)] * 80)]), ctx([rule([{2}, {2}], [(1, 2)])])]),
                               CHILDREN["multi"](), CHILDREN["alt"]()])
    cat.add("mal-budget-mix", [lookup([ctx([rule([{1}], [(0, 2)] * 70), rule([{2}], [(0, 3)])], fmt=1)]),
                               lookup([single({1: 6, 6: 1})]), lookup([single({2: 1})])])
    cat.add("mal-budget-mix", [lookup([ctx([rule([{1}], [(0, 2)] * 67)]), ctx([rule([{2}], [(0, 3)])])]),
                               lookup([single({1: 6, 6: 1})]), lookup([single({2: 1})])])
    cat.add("mal-seqidx-mix", [lookup([ctx([rule([{1}, {2}], [(2, 2), (0, 2)]), rule([{2}], [(0, 2), (0, 2)])], fmt=1)]),
                               CHILDREN["single"]()])
    # the sequence grows by exactly the length of the match while the budget runs out: the scan must
    # still make progress (termination)
    cat.add("mal-growloop", [lookup([ctx([rule([{1}], [(0, 2)] + [(0, 3)] * 70)])]),
                             lookup([multi({1: [1, 1]})]), lookup([single({6: 6})])])
    cat.add("mal-growloop", [lookup([ctx([rule([{1}], [(0, 2), (7, 2)])], fmt=1)]), lookup([multi({1: [2, 1]})])])
    cat.add("mal-growloop", [lookup([ctx([rule([{1}, {2}], [(0, 2), (1, 2), (9, 2)])], fmt=2)]),
                             lookup([multi({1: [1, 2], 2: [1, 2]})])])
    for chain in (False, True):
        cat.add("mal-classidx", [lookup([ctx([rule([{1}, {2}], [(0, 2)]), rule([{2}], [(0, 2)])], fmt=2, chain=chain,
                                             trunc={2})]), CHILDREN["single"]()])
    # class-based pair adjustment whose class definitions name classes outside the matrix (both axes,
    # more rows than columns and the other way round): no adjustment, no panic
    for rows, cols, c1, c2 in ((3, 2, 1, 2), (2, 3, 2, 1), (3, 1, 2, 2), (1, 3, 0, 5)):
        mat = [[(vr(0, 0, 10 * r + c), vr(c, 0, 0) if (r + c) % 2 else None) for c in range(cols)] for r in range(rows)]
        cat.add("mal-pairclass", [lookup([pair2({1, 2}, {1: c1, 2: 0}, {1: 1, 2: c2, 4: 7}, mat, range(1, 7))], gpos=True)])
    cat.add("mal-anchorclass", [lookup([attach("mbase", {4: (3, 1, 1)}, {1: [(1, 1)]})], gpos=True)])


FAMILIES = {
    "simple": family_simple, "lig": family_lig, "order": family_order, "ctx": family_ctx,
    "chain": family_chain, "gpos": family_gpos, "malformed": family_malformed, "ctxnest": family_ctxnest, "ctxskip": family_ctxskip,
    "curs": family_curs, "ctxfilt": family_ctxfilt, "bigid": family_bigid,
    "ctxtrail": family_ctxtrail, "block": family_block, "long": family_long,
}


def build(names, deep=False):
    cat = Cat()
    for n in names:
        if n == "ctx":
            family_ctx(cat, deep=deep)
        else:
            FAMILIES[n](cat)
    return cat.cases


def _partition_ok(sets):
    """format 2 needs the glyph sets of one sequence to be pairwise equal or disjoint"""
    for a in sets:
        for b in sets:
            if a != b and set(a) & set(b):
                return False
    return True


def random_gdef(rng):
    """arbitrary GDEF class data over the alphabet 1..6: any class for any glyph (also 'comp' and none), attachment
    classes and mark glyph sets that also name non-mark glyphs (they must be ignored for those)"""
    cls = [[g, c] for g in range(1, 7) for c in [rng.choice(["base", "lig", "mark", "mark", "comp", None])] if c]
    att = [[g, rng.choice([1, 2, 1, 2, 257, 514])] for g in range(1, 7) if rng.random() < 0.5]
    sets = [sorted(rng.sample(range(1, 7), rng.randint(0, 4))) for _ in range(rng.randint(0, 3))]
    return {"present": True, "class": cls, "att": att, "sets": sets}


# ---- random cases (V mode) ----------------------------------------------------------------------
def random_case(rng, cid, maxlen=14):
    g = lambda: rng.randint(1, 6)
    gs = lambda: set(rng.sample(range(1, 7), rng.choice([1, 1, 2, 3])))

    def rand_flags():
        return dict(rng.choice(FLAGSETS))

    def leaf(gpos):
        if gpos:
            c = rng.randint(0, 2)
            if c == 0:
                return spos({g(): vr(rng.randint(-9, 9), rng.randint(-9, 9), rng.randint(-9, 9)) for _ in range(3)})
            if c == 1:
                return pair1({(g(), g()): (vr(0, 0, rng.randint(-60, 60)),
                                           rng.choice([None, vr(rng.randint(-5, 5), 0, 0)])) for _ in range(5)})
            return attach("mbase", {4: (0, 1, 2), 5: (rng.randint(0, 1), 3, 4)},
                          {1: [(10, 20), (30, 40)], 2: [(5, 6), None]})
        c = rng.randint(0, 3)
        if c == 0:
            return single({g(): g() for _ in range(3)}, fmt=2)
        if c == 1:
            return multi({g(): [g() for _ in range(rng.randint(1, 3))] for _ in range(2)})
        if c == 2:
            return alt({g(): [g() for _ in range(rng.randint(0, 2))] for _ in range(2)})
        return lig({g(): [([g() for _ in range(rng.randint(1, 2))], g()) for _ in range(rng.randint(1, 3))]
                    for _ in range(2)})

    gpos = rng.random() < 0.3
    n = rng.randint(1, 4)
    ll = []
    for i in range(n):
        if i == 0 and rng.random() < 0.5 and n > 1:
            nin = rng.randint(1, 3)
            acts = [(rng.randrange(nin), rng.randint(2, n)) for _ in range(rng.choice([0, 1, 1, 1, 2, 2]))]
            chain = rng.random() < 0.5
            r = rule([gs() for _ in range(nin)], acts,
                     back=[gs() for _ in range(rng.randint(0, 2))] if chain else [],
                     ahead=[gs() for _ in range(rng.randint(0, 2))] if chain else [])
            fmt = 3
            allsets = r["back"] + r["in"] + r["ahead"]
            if all(len(x) == 1 for x in allsets) and rng.random() < 0.6:
                fmt = 1
            elif rng.random() < 0.6 and all(_partition_ok(part) for part in (r["back"], r["in"], r["ahead"])):
                fmt = 2
            ll.append(lookup([ctx([r], fmt=fmt, chain=chain)] + [leaf(gpos) for _ in range(rng.choice([0, 0, 1]))],
                             gpos=gpos, **rand_flags()))
        else:
            ll.append(lookup([leaf(gpos) for _ in range(rng.randint(1, 2))], gpos=gpos, **rand_flags()))
    order = [rng.randint(1, n) for _ in range(rng.randint(1, 3))]
    if any(st["k"] == "ctx" for st in ll[0]["subs"]):
        order = [1] + [o for o in order if o != 1]
    inp = [g() for _ in range(rng.randint(0, maxlen))]
    return {"id": cid, "family": "random", "order": order, "gdef": rng.choice([GDEF_FULL, GDEF_FULL, GDEF_NONE, None, None]) or random_gdef(rng),
            "ll": ll, "inputs": [inp]}
