"""Shared machinery of the go-sfnt verification checks (see DESIGN.md section 2).

A check module (checks/<ID>.py) defines

    LEVEL = "model_checking" | "fault_enumeration"
    def run(ctx): ...          # uses the Ctx API below, reports through ctx

and is started by bin/vcheck, which creates the Ctx, calls run() and then
ctx.finish().  Exit codes: 0 = held on everything explored, 1 = reproduced
violation that KNOWN_FINDINGS.json does not list, 2 = infrastructure failure
(TLC crash, timeout, build failure, dead driver) -- never a VIOLATION.
"""
import json
import os
import re
import shutil
import subprocess
import sys
import tempfile
import threading
import time

VERIF = os.path.dirname(os.path.dirname(os.path.abspath(__file__)))
SPEC_DIR = os.path.join(VERIF, "spec")
HARNESS_DIR = os.path.join(VERIF, "harness")
GOENV = {
    "GOFLAGS": "-mod=mod",
    "GOPROXY": "off",
    "GOSUMDB": "off",
    "GOTOOLCHAIN": "local",
}
TLA_CP = "/opt/veriftools/tla/tla2tools.jar:/opt/veriftools/tla/CommunityModules-deps.jar"


class Infra(Exception):
    """Infrastructure failure: exit code 2."""


class TLCResult:
    def __init__(self):
        self.rc = None
        self.generated = 0
        self.distinct = 0
        self.diameter = 0
        self.cases = []          # decoded JSON objects printed by Emit
        self.prints = []         # other <<"TAG", ...>> tuples printed by the spec, raw text
        self.violated = None     # name of a violated invariant/property, or "deadlock"
        self.error_text = ""
        self.out_path = None
        self.cmd = ""
        self.wall = 0.0
        self.coverage_zero = []  # actions with count 0 (coverage runs)
        self.coverage_zero_expr = []  # expressions never evaluated (coverage runs): "line a, col b to ... of module M"
        self.rejected_line = None
        self.counterexample = []  # raw state dump lines of a counterexample

    @property
    def ok(self):
        return self.rc == 0 and self.violated is None


def _tla_string_to_json(s):
    """TLC prints a TLA+ string with the same escapes JSON uses for quote and backslash."""
    return json.loads(s)


class Ctx:
    def __init__(self, pid, level, tier, seed, replay=None):
        self.pid = pid
        self.level = level
        self.tier = tier
        self.seed = seed
        self.replay_path = replay
        self.repo = os.environ.get("VERIF_REPO", "/repo")
        base = os.environ.get("TMPDIR", "/tmp")
        self.scratch = tempfile.mkdtemp(prefix="verif.%s." % pid, dir=base)
        self.t0 = time.time()
        self._n = 0
        self.cov = {
            "states": 0,
            "transitions": 0,
            "traces_validated_against_impl": 0,
            "evaluations": 0,
            "distinct_nontrivial": 0,
            "rule": "",
            "samples": [],
            "exhaustive": False,
            "tlc_runs": [],
            "bounds": {},
        }
        self.assumptions = []
        self.violations = []     # list of dicts {what, sig, replay}
        self.known_hits = []
        self.notes = []
        self.workers = int(os.environ.get("VERIF_WORKERS", "0")) or min(16, os.cpu_count() or 4)
        self._built = {}
        self._lock = threading.Lock()
        self._vlock = threading.Lock()

    # ------------------------------------------------------------------ util
    def log(self, *a):
        print("[%s %6.1fs]" % (self.pid, time.time() - self.t0), *a, flush=True)

    def subdir(self, name=None):
        with self._lock:
            self._n += 1
            n = self._n
        d = os.path.join(self.scratch, "%s%d" % (name or "d", n))
        os.makedirs(d)
        return d

    def quick(self):
        return self.tier == "quick"

    def pick(self, quick, thorough):
        return quick if self.tier == "quick" else thorough

    # --------------------------------------------------------------- harness
    def build(self, cmd, race=False, tags="verif"):
        """Build harness/cmd/<cmd> against the current working tree of the repository."""
        key = (cmd, race)
        if key in self._built:
            return self._built[key]
        out = os.path.join(self.scratch, "bin-%s%s" % (cmd, "-race" if race else ""))
        modfile = os.path.join(self.scratch, "go.mod")
        if not os.path.exists(modfile):
            src = open(os.path.join(HARNESS_DIR, "go.mod")).read()
            src = re.sub(r"replace seehuhn\.de/go/sfnt => \S+",
                         "replace seehuhn.de/go/sfnt => " + self.repo, src)
            open(modfile, "w").write(src)
            sums = open(os.path.join(HARNESS_DIR, "go.sum")).read()
            rs = os.path.join(self.repo, "go.sum")
            if os.path.exists(rs):
                sums += open(rs).read()
            open(os.path.join(self.scratch, "go.sum"), "w").write(
                "".join(sorted(set(sums.splitlines(True)))))
        env = dict(os.environ)
        env.update(GOENV)
        args = ["go", "build", "-modfile=" + modfile, "-tags", tags, "-o", out]
        if race:
            args.append("-race")
        args.append("./cmd/" + cmd)
        t = time.time()
        p = subprocess.run(args, cwd=HARNESS_DIR, env=env, stdout=subprocess.PIPE,
                           stderr=subprocess.STDOUT, text=True)
        if p.returncode != 0:
            raise Infra("harness build failed (%s):\n%s" % (" ".join(args), p.stdout[-4000:]))
        self.log("built %s%s in %.1fs" % (cmd, " (race)" if race else "", time.time() - t))
        self._built[key] = out
        return out

    def run(self, argv, stdin_path=None, stdout_path=None, timeout=600, env=None, ok_codes=(0,)):
        """Run a harness process.  Returns (rc, stdout text or None when redirected)."""
        e = dict(os.environ)
        e["VERIF_SEED"] = str(self.seed)
        e["VERIF_TIER"] = self.tier
        if env:
            e.update(env)
        fin = open(stdin_path, "rb") if stdin_path else subprocess.DEVNULL
        fout = open(stdout_path, "wb") if stdout_path else subprocess.PIPE
        try:
            p = subprocess.run(argv, stdin=fin, stdout=fout, stderr=subprocess.PIPE,
                               timeout=timeout, env=e)
        except subprocess.TimeoutExpired:
            raise Infra("harness timed out after %ds: %s" % (timeout, " ".join(argv)))
        finally:
            if stdin_path:
                fin.close()
            if stdout_path:
                fout.close()
        if p.returncode not in ok_codes:
            err = p.stderr.decode(errors="replace")
            if len(err) > 6000:      # a Go runtime abort names its cause in the first lines, before the goroutine dump
                err = err[:2500] + "\n[...]\n" + err[-3000:]
            raise Infra("harness exited %d: %s\n%s" % (p.returncode, " ".join(argv), err))
        out = None if stdout_path else p.stdout.decode(errors="replace")
        return p.returncode, out

    # ------------------------------------------------------------------- TLC
    def tlc(self, module, cfg=None, workers=None, simulate=None, depth=None, timeout=900,
            coverage=False, files=None, deadlock=None, dfs=False, seed=None, heap=None,
            trace_file=None, count=True, label=None):
        """Run TLC on spec/<module>.tla with spec/<cfg> (default <module>.cfg).

        simulate=N  -> -simulate num=N (behaviours), depth=D -> -depth D
        files       -> {name: text} written next to the spec (generated MC modules, cfgs)
        trace_file  -> ndjson file copied to ./trace.ndjson (trace validation, forces workers=1)
        """
        d = self.subdir("tlc")
        for f in os.listdir(SPEC_DIR):
            if f.endswith(".tla") or f.endswith(".cfg"):
                shutil.copy(os.path.join(SPEC_DIR, f), d)
        for name, text in (files or {}).items():
            open(os.path.join(d, name), "w").write(text)
        if trace_file:
            shutil.copy(trace_file, os.path.join(d, "trace.ndjson"))
            workers = 1
        cfg = cfg or (module + ".cfg")
        w = workers or self.workers
        jopts = ["-XX:+UseParallelGC", "-Xss64m"]
        jopts.append("-Xmx" + (heap or os.environ.get("VERIF_TLC_HEAP", "8g")))
        if dfs:
            jopts.append("-Dtlc2.tool.queue.IStateQueue=StateDeque")
        argv = ["java"] + jopts + ["-cp", TLA_CP, "tlc2.TLC", "-config", cfg,
                                     "-workers", str(w), "-metadir", os.path.join(d, "meta"),
                                     "-seed", str(seed if seed is not None else self.seed),
                                     "-noGenerateSpecTE"]
        if simulate is not None:
            argv += ["-simulate", "num=%d" % simulate]
        if depth is not None:
            argv += ["-depth", str(depth)]
        if coverage:
            argv += ["-coverage", "1"]
        if deadlock is False:
            pass  # governed by CHECK_DEADLOCK in the cfg
        argv.append(module + ".tla")
        res = TLCResult()
        res.cmd = " ".join(argv[argv.index("tlc2.TLC"):])
        res.out_path = os.path.join(d, "tlc.out")
        t = time.time()
        with open(res.out_path, "wb") as fo:
            try:
                p = subprocess.run(["timeout", "-k", "10", str(timeout)] + argv, cwd=d, stdout=fo,
                                   stderr=subprocess.STDOUT)
            except Exception as ex:  # pragma: no cover
                raise Infra("cannot run TLC: %r" % ex)
        res.wall = time.time() - t
        res.rc = p.returncode
        self._parse_tlc(res)
        if res.rc in (124, 137):
            raise Infra("TLC timed out after %ds: %s" % (timeout, res.cmd))
        if res.rc != 0 and res.violated is None and res.rejected_line is None:
            raise Infra("TLC failed (rc=%d) %s\n%s" % (res.rc, res.cmd, res.error_text[-3000:]))
        if count:
            self.cov["states"] += res.distinct
            self.cov["transitions"] += res.generated
            self.cov["tlc_runs"].append({
                "label": label or module, "cmd": res.cmd, "generated": res.generated,
                "distinct": res.distinct,
                "diameter": res.diameter, "wall_s": round(res.wall, 2),
                "cases": len(res.cases), "violated": res.violated})
        self.log("TLC %s/%s: %d generated, %d distinct, depth %d, %d cases, %.1fs%s" % (
            module, cfg, res.generated, res.distinct, res.diameter, len(res.cases), res.wall,
            (" VIOLATED " + str(res.violated)) if res.violated else ""))
        return res

    _re_states = re.compile(r"^(\d+) states generated, (\d+) distinct states found")
    _re_sim = re.compile(r"The number of states generated: (\d+)")
    _re_depth = re.compile(r"The depth of the complete state graph search is (\d+)")
    _re_inv = re.compile(r"Error: Invariant (\S+) is violated")
    _re_prop = re.compile(r"Error: (?:Temporal properties were violated|Action property (\S+) is violated)")
    _re_cov0 = re.compile(r"^\s*(\|*)\s*(line \d+, col \d+ to line \d+, col \d+ of module \S+): 0\s*$")
    _re_act = re.compile(r"^<(\w+) (line \d+, col \d+ to line \d+, col \d+ of module \w+)>: (\d+):(\d+)")

    def _parse_tlc(self, res):
        errs = []
        in_err = False
        with open(res.out_path, "r", errors="replace") as f:
            for line in f:
                line = line.rstrip("\n")
                if line.startswith('<<"CASE", '):
                    body = line[len('<<"CASE", '):]
                    if body.endswith(">>"):
                        body = body[:-2]
                    try:
                        res.cases.append(json.loads(_tla_string_to_json(body)))
                    except Exception as ex:
                        raise Infra("malformed CASE line from TLC: %r (%s)" % (line[:200], ex))
                    continue
                if line.startswith('<<"REJECTED_AT_LINE", '):
                    res.rejected_line = int(re.sub(r"[^0-9]", "", line))
                    continue
                if line.startswith('<<"'):
                    res.prints.append(line)
                    continue
                m = self._re_states.match(line)
                if m:
                    res.generated, res.distinct = int(m.group(1)), int(m.group(2))
                    continue
                m = self._re_sim.search(line)
                if m:
                    res.generated = max(res.generated, int(m.group(1)))
                    res.distinct = max(res.distinct, int(m.group(1)))
                    continue
                m = self._re_depth.search(line)
                if m:
                    res.diameter = int(m.group(1))
                    continue
                m = self._re_inv.search(line)
                if m:
                    res.violated = m.group(1)
                m2 = self._re_prop.search(line)
                if m2:
                    res.violated = m2.group(1) or "temporal"
                if "Error: Deadlock reached" in line:
                    res.violated = "deadlock"
                if "Postcondition" in line and "violated" in line:
                    res.violated = res.violated or "postcondition"
                m = self._re_act.match(line)
                if m and int(m.group(3)) == 0:
                    res.coverage_zero.append(m.group(1))
                m = self._re_cov0.match(line)
                if m:
                    res.coverage_zero_expr.append(m.group(2))
                if line.startswith("Error:") or in_err:
                    in_err = True
                    errs.append(line)
                    if len(errs) > 400:
                        in_err = False
                if line.startswith("State ") or line.startswith("/\\ ") or (res.counterexample and line.startswith("  ")):
                    if len(res.counterexample) < 2000:
                        res.counterexample.append(line)
        res.error_text = "\n".join(errs)

    def apalache(self, module, init, inv, length, cinit=None, timeout=600, label=None, expect_error=False,
                 files=None):
        """Bounded symbolic check with Apalache (used for inductive invariants: length 0 from Init,
        length 1 from the invariant itself).  Returns True iff no error was found."""
        d = self.subdir("apa")
        for f in os.listdir(SPEC_DIR):
            if f.endswith(".tla"):
                shutil.copy(os.path.join(SPEC_DIR, f), d)
        for name, text in (files or {}).items():
            open(os.path.join(d, name), "w").write(text)
        argv = ["timeout", "-k", "10", str(timeout), "apalache-mc", "check", "--out-dir=" + os.path.join(d, "out"),
                "--init=" + init, "--inv=" + inv, "--length=%d" % length]
        if cinit:
            argv.append("--cinit=" + cinit)
        argv.append(module + ".tla")
        t = time.time()
        p = subprocess.run(argv, cwd=d, stdout=subprocess.PIPE, stderr=subprocess.STDOUT, text=True)
        out = p.stdout
        ok = "The outcome is: NoError" in out and p.returncode == 0
        err = "The outcome is: Error" in out
        if not ok and not err:
            raise Infra("apalache failed (rc=%d): %s\n%s" % (p.returncode, " ".join(argv), out[-2000:]))
        self.cov.setdefault("apalache_runs", []).append({
            "label": label or module, "cmd": " ".join(argv[4:]), "outcome": "NoError" if ok else "Error",
            "wall_s": round(time.time() - t, 2)})
        self.log("Apalache %s init=%s inv=%s length=%d: %s, %.1fs" % (module, init, inv, length,
                                                                      "NoError" if ok else "Error", time.time() - t))
        return ok

    def validate_trace(self, module, trace_path, cfg=None, timeout=900, files=None, label=None, traces=1):
        """Trace validation: TLC must consume every line of trace_path (POSTCONDITION Accepted).

        Returns (accepted, rejected_line, TLCResult)."""
        res = self.tlc(module, cfg=cfg, trace_file=trace_path, timeout=timeout, files=files,
                       label=label or (module + " (trace validation)"))
        accepted = res.rc == 0 and res.violated is None and res.rejected_line is None
        if accepted:
            self.cov["traces_validated_against_impl"] += traces
        return accepted, res.rejected_line, res

    # ------------------------------------------------------------- reporting
    def sample(self, obj, limit=6):
        if len(self.cov["samples"]) < limit:
            s = json.dumps(obj)
            if len(s) > 3000:
                obj = {"truncated": s[:3000]}
            self.cov["samples"].append(obj)

    def violation(self, what, sig=None, case=None):
        """Report a violation that was reproduced against the real code.

        sig  -- small dict describing the failing call site / input class (matched against
                KNOWN_FINDINGS.json); case -- JSON-serialisable replay data."""
        with self._vlock:
            return self._violation(what, sig, case)

    def _violation(self, what, sig, case):
        sig = sig or {}
        for kf in load_known(self.pid):
            if kf.get("status") != "known":
                continue
            m = kf.get("match") or {}
            if m and all(_match_field(sig.get(k), v) for k, v in m.items()):
                if kf["what"] not in [k["what"] for k in self.known_hits]:
                    self.known_hits.append(kf)
                return False
        os.makedirs(os.path.join(VERIF, "replays"), exist_ok=True)
        path = os.path.join(VERIF, "replays", "%s-%d-%d.json" % (self.pid, self.seed, len(self.violations)))
        if len(self.violations) < 20:
            with open(path, "w") as f:
                json.dump({"property": self.pid, "what": what, "sig": sig, "case": case,
                           "tier": self.tier, "seed": self.seed}, f, indent=1)
        self.violations.append({"what": what, "sig": sig, "replay": path})
        return True

    def finish(self):
        cov = self.cov
        ev = {
            "property_id": self.pid,
            "tier": self.tier,
            "seed": self.seed,
            "level": self.level,
            "coverage": cov,
            "assumptions": self.assumptions,
            "wall_s": round(time.time() - self.t0, 2),
            "violations": len(self.violations),
            "known_findings_hit": [k["what"] for k in self.known_hits],
            "notes": self.notes,
            "repo": self.repo,
        }
        if not cov["samples"]:
            cov["samples"] = [{"note": "no case recorded"}]
        os.makedirs(os.path.join(VERIF, "evidence"), exist_ok=True)
        # evidence is only what the check observed on /repo itself (never a scratch copy or a replay)
        partial = [k for k in os.environ if k.startswith("VERIF_") and k.endswith("_ONLY")]     # development runs
        if not self.replay_path and os.path.realpath(self.repo) == "/repo" and not partial:
            with open(os.path.join(VERIF, "evidence", self.pid + ".json"), "w") as f:
                json.dump(ev, f, indent=1)
        for k in self.known_hits:
            print("KNOWN-FINDING: property=%s %s" % (self.pid, k["what"]))
        seen = set()
        for v in self.violations[:20]:
            if v["replay"] in seen:
                continue
            seen.add(v["replay"])
            print("VIOLATION property=%s replay=%s" % (self.pid, v["replay"]))
            print("  " + v["what"][:1000])
        self.cleanup()
        return 1 if self.violations else 0

    def cleanup(self):
        if os.environ.get("VERIF_KEEP"):
            self.log("scratch kept at", self.scratch)
            return
        shutil.rmtree(self.scratch, ignore_errors=True)


def _match_field(actual, want):
    if isinstance(want, dict) and "re" in want:
        return actual is not None and re.search(want["re"], str(actual)) is not None
    return actual == want


_known_cache = None


def load_known(pid):
    global _known_cache
    if _known_cache is None:
        p = os.path.join(VERIF, "KNOWN_FINDINGS.json")
        _known_cache = json.load(open(p))["findings"] if os.path.exists(p) else []
    return [k for k in _known_cache if k.get("property") == pid]


def read_ndjson(path):
    out = []
    with open(path) as f:
        for line in f:
            line = line.strip()
            if line:
                out.append(json.loads(line))
    return out


def write_ndjson(path, objs):
    with open(path, "w") as f:
        for o in objs:
            f.write(json.dumps(o, separators=(",", ":")))
            f.write("\n")


def tla_value(o):
    """Render a JSON-like Python value as a TLA+ expression (for generated MC modules)."""
    if isinstance(o, bool):
        return "TRUE" if o else "FALSE"
    if isinstance(o, int):
        return str(o)
    if isinstance(o, str):
        return json.dumps(o)
    if isinstance(o, (list, tuple)):
        return "<<" + ", ".join(tla_value(x) for x in o) + ">>"
    if isinstance(o, (set, frozenset)):
        return "{" + ", ".join(tla_value(x) for x in sorted(o, key=repr)) + "}"
    if isinstance(o, dict):
        if not o:
            return "<<>>"
        return "[" + ", ".join("%s |-> %s" % (k, tla_value(v)) for k, v in o.items()) + "]"
    raise TypeError(type(o))
